#!/usr/bin/env python3
"""Driver: ./check.py <ID> [--tier quick|thorough] | --replay <file>
Regenerates the encoding from /repo's current working tree on every run (clang -> IR -> engines)."""
import sys, os, re, json, time, subprocess, hashlib, importlib, shutil, traceback, resource, signal
from concurrent.futures import ProcessPoolExecutor, as_completed

ROOT = os.path.dirname(os.path.abspath(__file__))
sys.path.insert(0, os.path.join(ROOT, 'engine'))
sys.path.insert(0, ROOT)
REPO = os.environ.get('VERIF_REPO', '/repo')
OUT = os.environ.get('VERIF_OUT', ROOT)   # evidence/ and replay/ are written under OUT (only overridden when testing seeded changes)
CLANG_FLAGS = ['-std=c++20', '-I' + REPO + '/include', '-I' + REPO, '-I' + ROOT + '/harness/include', '-I' + ROOT + '/harness',
               '-O1', '-fno-inline', '-fno-vectorize', '-fno-slp-vectorize', '-fno-unroll-loops', '-fno-builtin',
               '-DVERIF_REPO="' + REPO + '"', '-S', '-emit-llvm', '-w']

class Job:
    def __init__(s, name, unit, entry, args=(), merge=(), reach=(), bounds='', engine='S', timeout=600, check_ub=True,
                 enum_cap=64, max_paths=200000, max_steps=5_000_000, kf=None, native=True, solver_timeout_ms=120000,
                 expect_violation=None, extra_units=(), cbmc=None, defines=(), findings=(), redirect=None, snippets=None, stream_sink=False, must_reach=None, lockset=None):
        s.name = name; s.unit = unit; s.entry = entry; s.args = list(args); s.merge = list(merge); s.reach = list(reach)
        s.bounds = bounds; s.engine = engine; s.timeout = timeout; s.check_ub = check_ub; s.enum_cap = enum_cap
        s.max_paths = max_paths; s.max_steps = max_steps; s.kf = dict(kf or {}); s.native = native
        s.solver_timeout_ms = solver_timeout_ms; s.expect_violation = expect_violation; s.extra_units = list(extra_units)
        s.cbmc = cbmc; s.defines = list(defines); s.findings = list(findings); s.redirect = dict(redirect or {}); s.snippets = dict(snippets or {}); s.stream_sink = stream_sink; s.must_reach = dict(must_reach or {}); s.lockset = dict(lockset or {})

def match_brace(src, i):
    """index of the '}' that closes the '{' at src[i], ignoring braces inside string / character literals and comments"""
    depth = 0; j = i; n = len(src)
    while j < n:
        c = src[j]
        if c == '/' and src[j:j + 2] == '//':
            j = src.find('\n', j); j = n if j < 0 else j; continue
        if c == '/' and src[j:j + 2] == '/*':
            j = src.find('*/', j + 2); j = n if j < 0 else j + 2; continue
        if c == '"' or c == "'":
            if c == '"' and j >= 1 and src[j - 1] == 'R':            # raw string R"delim( ... )delim"
                mm = re.match(r'"([^()\\ ]{0,16})\(', src[j:])
                if mm:
                    end = src.find(')' + mm.group(1) + '"', j); j = n if end < 0 else end + len(mm.group(1)) + 2; continue
            q = c; j += 1
            while j < n and src[j] != q:
                if src[j] == '\\': j += 1
                j += 1
            j += 1; continue
        if c == '{': depth += 1
        elif c == '}':
            depth -= 1
            if depth == 0: return j
        j += 1
    return -1

def extract_function(path, name):
    """text of the definition of function `name` in a /repo source file (from the start of its declaration line to the matching
    closing brace) - used to lift small file-static helpers out of translation units that are too large to include"""
    src = open(path).read()
    import re
    # definitions at namespace scope (declaration line starts in column 0) are preferred over indented matches (in-class definitions,
    # but also call sites such as `if (auto e = name(...)) {`)
    cands = list(re.finditer(r'^[^\s;{}#][^\n;{}#]*\b' + re.escape(name) + r'\s*\(', src, re.M)) + list(re.finditer(r'^[^\n;{}#]*\b' + re.escape(name) + r'\s*\(', src, re.M))
    for m in cands:
        # skip the parameter list (it may contain braces: "hint = {}"), then the body starts at the next '{'
        depth_p = 1; q = m.end()
        while q < len(src) and depth_p:
            if src[q] == '(': depth_p += 1
            elif src[q] == ')': depth_p -= 1
            q += 1
        i = src.find('{', q)
        semi = src.find(';', q)
        if i < 0 or (0 <= semi < i): continue          # a declaration or a call, not a definition
        j = match_brace(src, i)
        if j >= 0: return src[m.start():j + 1]
    raise RuntimeError('function %s not found in %s' % (name, path))

def extract_block(path, start_regex):
    """text from the first match of start_regex up to the brace that closes the first '{' after it (plus a directly following ';')"""
    import re
    src = open(path).read()
    m = re.search(start_regex, src, re.M)
    if not m: raise RuntimeError('pattern %r not found in %s' % (start_regex, path))
    start = m.end()
    if src[m.end() - 1] == '(':                       # function-style anchor: skip the parameter list first
        depth_p = 1; q = m.end()
        while q < len(src) and depth_p:
            if src[q] == '(': depth_p += 1
            elif src[q] == ')': depth_p -= 1
            q += 1
        start = q
    i = src.find('{', start - 1 if src[start - 1] == '{' else start)
    j = match_brace(src, i)
    if j >= 0:
        end = j + 1
        if src[end:end + 1] == ';': end += 1
        return src[m.start():end]
    raise RuntimeError('unbalanced braces after %r in %s' % (start_regex, path))

def workdir():
    d = os.path.join(ROOT, '.work', str(os.getpid()))
    os.makedirs(d, exist_ok=True)
    return d

def compile_unit(unit, wd, defines=()):
    src = os.path.join(ROOT, 'harness', unit)
    tag = hashlib.sha1((unit + ' '.join(defines)).encode()).hexdigest()[:10]
    out = os.path.join(wd, os.path.basename(unit).replace('.cpp', '') + '.' + tag + '.ll')
    if os.path.exists(out): return out
    flags = list(CLANG_FLAGS)
    for ln in open(src):
        if ln.startswith('// CLANG-STD:'): flags[0] = '-std=' + ln.split(':', 1)[1].strip()   # e.g. a unit clang-14 only accepts as C++17
    cmd = ['clang++-14'] + flags + ['-D' + d for d in defines] + [src, '-o', out]
    r = subprocess.run(cmd, capture_output=True, text=True)
    if r.returncode != 0:
        raise RuntimeError('clang failed for %s:\n%s' % (unit, r.stderr[:2500] + '\n...\n' + r.stderr[-1500:]))
    return out

def run_job_S(job, lls):
    import symex
    t0 = time.time()
    res = {'job': job.name, 'entry': job.entry, 'args': job.args, 'bounds': job.bounds, 'engine': 'S', 'kf': job.kf}
    try:
        mods = symex.load_modules(lls)
        E = symex.Engine(mods, merge=job.merge, check_ub=job.check_ub, timeout_ms=job.solver_timeout_ms,
                         max_steps=job.max_steps, enum_cap=job.enum_cap)
        E.kf_mode = dict(job.kf)
        symex.set_redirects(E, job.redirect)
        E.stream_sink = job.stream_sink
        symex.run_ctors(E)
        viols = []; statuses = {}; samples = []; paths = [0]; steps = [0]
        budget_hit = []
        def on_path(r):
            paths[0] += 1; steps[0] += r.steps
            statuses[r.status] = statuses.get(r.status, 0) + 1
            for v in r.violations:
                if len(viols) < 20: viols.append(v)
            if r.status == 'uncaught':
                if len(viols) < 20:
                    viols.append({'kind': 'uncaught', 'msg': 'exception escapes the entry point: %s' % r.info, 'model': r.model, 'stack': []})
            if r.status == 'budget': budget_hit.append(r.info)
            if r.status == 'error' and not r.violations and r.info == 'verif_abort': pass
            if r.model is not None and len(samples) < 3:
                samples.append({'status': r.status, 'model': [(n, w, v) for n, w, v in r.model][:40], 'observed': r.observed[:20] if r.observed else []})
        symex.explore(E, job.entry, job.args, max_paths=job.max_paths, on_path=on_path, deadline=t0 + job.timeout)
        res.update(status='violation' if viols else 'pass', violations=viols, paths=paths[0], steps=steps[0], statuses=statuses,
                   stats=dict(E.stats), solver_s=round(E.t_solver, 2), reached={k: v for k, v in E.reach_count.items()},
                   witness={k: v[:40] for k, v in E.reached.items()}, samples=samples,
                   functions=sorted(E.compiled.keys()), kf_seen=sorted(E.kf_seen))
        if budget_hit:
            res['status'] = 'violation' if viols else 'inconclusive'
            res['error'] = 'budget: ' + str(budget_hit[0])
            res['budget_paths'] = len(budget_hit)
        # existential clauses ("some input makes X happen"): the exploration of every path within the bounds is the solver's verdict that
        # no input does; it is reported as a violation of the universal reading, and sampled natively before it is believed
        if res['status'] == 'pass' and not budget_hit:
            for tag, msg in job.must_reach.items():
                if tag not in E.reach_count:
                    names = samples[0]['model'] if samples else []
                    res['status'] = 'violation'
                    res.setdefault('violations', []).append({'kind': 'universal', 'msg': msg + ' (no input within the bounds reaches "%s")' % tag, 'model': names, 'stack': [], 'tag': tag})
        # lock discipline (C36): for every watched member and every pair of thread roles that can run concurrently, all accesses must share
        # a mutex when at least one of them writes. The log is the union over ALL explored paths (every feasible path of every role).
        if job.lockset and res['status'] == 'pass' and not budget_hit:
            log = E.lockset_log
            res['locksets'] = [{'role': c, 'member': m, 'access': rw, 'held': sorted(sorted(h) for h in hs)} for (c, m, rw), hs in sorted(log.items())]
            roles = sorted({c for c, _, _ in log}); multi = set(job.lockset.get('multi', []))
            serial = [set(g) for g in job.lockset.get('serialised', [])]       # roles that never run concurrently with each other
            for m in sorted({m for _, m, _ in log}):
                for i, c1 in enumerate(roles):
                    for c2 in roles[i:]:
                        if c1 == c2 and c1 not in multi: continue
                        if any(c1 in g and c2 in g for g in serial) and c1 != c2: continue
                        a1 = [(rw, h) for (c, mm, rw), hs in log.items() if c == c1 and mm == m for h in hs]
                        a2 = [(rw, h) for (c, mm, rw), hs in log.items() if c == c2 and mm == m for h in hs]
                        bad = [(x, y) for x in a1 for y in a2 if ('w' in (x[0], y[0])) and not (x[1] & y[1])]
                        if bad:
                            x, y = bad[0]
                            res['status'] = 'violation'
                            res.setdefault('violations', []).append({'kind': 'race', 'member': m, 'model': [], 'stack': [],
                                'msg': '%s: %s (%s, holding %s) and %s (%s, holding %s) share no mutex' % (m, c1, 'write' if x[0] == 'w' else 'read', sorted(x[1]) or 'nothing', c2, 'write' if y[0] == 'w' else 'read', sorted(y[1]) or 'nothing')})
        missing = [t for t in job.reach if t not in E.reach_count]
        if missing and res['status'] == 'pass':
            res['status'] = 'inconclusive'; res['error'] = 'vacuity: reach tags never reached: ' + ','.join(missing)
    except symex.EngineError as e:
        res.update(status='inconclusive', error='engine: ' + str(e))
    except Exception as e:
        res.update(status='inconclusive', error='internal: ' + repr(e) + '\n' + traceback.format_exc()[-1500:])
    res['wall_s'] = round(time.time() - t0, 2)
    res['peak_rss_mb'] = resource.getrusage(resource.RUSAGE_SELF).ru_maxrss // 1024
    return res

def run_job(job, lls, wd):
    try: resource.setrlimit(resource.RLIMIT_AS, (24 << 30, 24 << 30))
    except Exception: pass
    if job.engine == 'S': return run_job_S(job, lls)
    import engine_b
    return engine_b.run_job(job, lls, wd, ROOT, REPO)

# ----------------------------------------------------------------------------- native replay
def native_libs(unit):
    """extra link flags for the native replay of a harness unit: a line '// NATIVE-LIBS: -lfoo' in the unit"""
    for ln in open(os.path.join(ROOT, 'harness', unit)):
        if ln.startswith('// NATIVE-LIBS:'): return ln.split(':', 1)[1].split()
    return []

def native_build(unit, wd, defines=(), san='address,undefined'):
    tag = hashlib.sha1((unit + ' '.join(defines) + san).encode()).hexdigest()[:10]
    out = os.path.join(wd, 'replay_' + os.path.basename(unit).replace('.cpp', '') + '.' + tag)
    if os.path.exists(out): return out
    cmd = ['g++', '-std=c++20', '-O0', '-g', '-fsanitize=' + san] + (['-fno-sanitize-recover=undefined'] if 'undefined' in san else []) + ['-rdynamic', '-w',
           '-I' + REPO + '/include', '-I' + REPO, '-I' + ROOT + '/harness/include', '-I' + ROOT + '/harness', '-DVERIF_NATIVE=1',
           '-DVERIF_REPO="' + REPO + '"'] + ['-D' + d for d in defines] + \
          [os.path.join(ROOT, 'harness', unit), os.path.join(ROOT, 'harness/rt/verif_rt.cpp'), '-o', out, '-ldl', '-lpthread'] + native_libs(unit)
    r = subprocess.run(cmd, capture_output=True, text=True)
    if r.returncode != 0:
        return None
    return out

def native_run(binp, entry, args, model, wd, tag):
    vf = os.path.join(wd, 'vals_%s.txt' % tag)
    with open(vf, 'w') as f:
        for n, w, v in model: f.write('%s %d %d\n' % (n.replace(' ', '_'), w, v))
    env = dict(os.environ, ASAN_OPTIONS='detect_leaks=0:abort_on_error=0', UBSAN_OPTIONS='print_stacktrace=0')
    try:
        r = subprocess.run([binp, entry, vf] + [str(a) for a in args], capture_output=True, text=True, timeout=120, env=env, errors='replace')
    except subprocess.TimeoutExpired:
        return {'rc': 'timeout', 'out': '', 'err': 'native run timed out (120 s)'}
    return {'rc': r.returncode, 'out': r.stdout[-4000:], 'err': r.stderr[:1500] + ('\n...\n' + r.stderr[-1500:] if len(r.stderr) > 1500 else ''),
            'sanitizer': ('ERROR: AddressSanitizer' in r.stderr) or ('runtime error' in r.stderr) or ('ERROR: LeakSanitizer' in r.stderr)}

def native_confirms(nr, viol):
    """does the native run show the violation the solver predicted?"""
    if nr is None: return None
    rc = nr['rc']; out = nr['out']; err = nr['err']
    k = viol['kind']
    if rc in (4, 5): return None          # replay mismatch: inconclusive
    if k == 'assert' and str(viol.get('msg', '')).startswith('recursion depth exceeds'):
        # unbounded recursion: natively a stack overflow (ASan report / SIGSEGV) or a run that does not end
        return bool(nr.get('sanitizer')) or 'stack-overflow' in err or rc == 'timeout' or rc in (-11, -6, 139, 134)
    if k == 'assert': return 'ASSERT-FAIL' in out
    if k == 'uncaught': return 'UNCAUGHT' in out or 'terminate called' in err
    if k in ('memory', 'ub'): return bool(nr.get('sanitizer')) or ('ERROR: AddressSanitizer' in err) or ('runtime error' in err) or rc == 'timeout' or rc in (-11, -6, 139, 134)
    if k in ('terminate', 'abort'): return rc not in (0, 1) or 'terminate' in err
    if k == 'budget': return rc == 'timeout'
    return rc != 0

# ----------------------------------------------------------------------------- known findings
def load_known():
    p = os.path.join(ROOT, 'known_findings.jsonl')
    out = []
    if os.path.exists(p):
        for ln in open(p):
            ln = ln.strip()
            if ln and not ln.startswith('#'):
                try: out.append(json.loads(ln))
                except Exception: pass
    return out

def main():
    if len(sys.argv) >= 3 and sys.argv[1] == '--replay':
        return replay(sys.argv[2])
    pid = sys.argv[1]
    tier = os.environ.get('VERIF_TIER', 'quick')
    if '--tier' in sys.argv: tier = sys.argv[sys.argv.index('--tier') + 1]
    seed = int(os.environ.get('VERIF_SEED', '0') or 0)
    only = sys.argv[sys.argv.index('--job') + 1] if '--job' in sys.argv else None
    t0 = time.time()
    wd = workdir()
    os.environ['VERIF_WORK'] = wd
    rc = 3
    try:
        rc = check(pid, tier, seed, wd, only, t0)
    finally:
        shutil.rmtree(wd, ignore_errors=True)
    return rc

def check(pid, tier, seed, wd, only, t0):
    mod = importlib.import_module('props.' + pid)
    known = [k for k in load_known() if k.get('property') == pid and k.get('status', 'open') == 'open']
    known_ids = {k['id']: k for k in known}
    jobs = mod.jobs(tier)
    # per-job time budgets were measured on an idle 16-core machine; the thorough tier (many more jobs competing for the cores) and a
    # loaded machine get a multiple of them. Exceeding a budget is INCONCLUSIVE (exit 3), never a pass.
    scale = float(os.environ.get('VERIF_TIMEOUT_SCALE', '3' if tier == 'thorough' else '1.5'))
    for j in jobs: j.timeout = int(j.timeout * scale)
    # expand known findings: every job gets all listed findings in 'exclude' mode; one extra 'only' job per finding
    alljobs = []
    for j in jobs:
        decl = getattr(j, 'findings', None) or []
        j.kf = {f: 'exclude' for f in decl if f in known_ids}
        alljobs.append(j)
        for f in decl:
            if f in known_ids:
                import copy
                jj = copy.copy(j); jj.name = j.name + '@finding:' + f; jj.kf = dict(j.kf); jj.kf[f] = 'only'; jj.finding = f; jj.reach = []
                alljobs.append(jj)
    if only: alljobs = [j for j in alljobs if only in j.name]
    # compile
    units = {}; auto_lifted = []
    try:
        for j in alljobs:
            for macro, (relpath, fname) in j.snippets.items():
                sp = os.path.join(wd, 'snip_%s.inc' % macro)
                if not os.path.exists(sp):
                    optional_ = fname.startswith('?')
                    if optional_:
                        fname = fname[1:]
                        try:
                            body = extract_block(os.path.join(REPO, relpath), fname[3:]) if fname.startswith('re:') else extract_function(os.path.join(REPO, relpath), fname)
                        except RuntimeError:
                            body = '// (not present in this tree)'
                        with open(sp, 'w') as f: f.write('// lifted from %s at check time\n' % relpath + body + '\n')
                        continue_outer = True
                    else:
                        continue_outer = False
                    if continue_outer:
                        d = '%s="%s"' % (macro, sp)
                        if d not in j.defines: j.defines.append(d)
                        continue
                    if fname.startswith('re1:'):      # one statement: from the match to the first ';'
                        import re as _re
                        src_ = open(os.path.join(REPO, relpath)).read(); mm_ = _re.search(fname[4:], src_, _re.M)
                        if not mm_: raise RuntimeError('pattern %r not found in %s' % (fname[4:], relpath))
                        body = src_[mm_.start():src_.index(';', mm_.end()) + 1]
                    else:
                        body = extract_block(os.path.join(REPO, relpath), fname[3:]) if fname.startswith('re:') else extract_function(os.path.join(REPO, relpath), fname)
                    with open(sp, 'w') as f: f.write('// lifted from %s at check time\n' % relpath + body + '\n')
                d = '%s="%s"' % (macro, sp)
                if d not in j.defines: j.defines.append(d)
        for j in alljobs:
            # SNIP_AUTO: file-static helpers that the lifted code turns out to need (see below); empty unless a retry fills it
            if j.snippets:
                ap = os.path.join(wd, 'snip_AUTO.inc')
                if not os.path.exists(ap): open(ap, 'w').write('// helpers lifted automatically because lifted code refers to them\n')
                d = 'SNIP_AUTO="%s"' % ap
                if d not in j.defines: j.defines.append(d)
        for j in alljobs:
            for u in [j.unit] + j.extra_units:
                key = (u, tuple(j.defines))
                if key in units: continue
                for attempt in range(16):
                    try:
                        units[key] = compile_unit(u, wd, j.defines); break
                    except RuntimeError as e:
                        # a lifted function may call a file-static helper that a refactor introduced: lift the helper too and retry.
                        # Helpers found later are dependencies of those found earlier, so they go to the front of SNIP_AUTO.
                        import re as _re
                        missing = _re.findall(r"use of undeclared identifier '([A-Za-z_][A-Za-z0-9_]*)'", str(e))
                        srcs = sorted({rel for rel, _ in j.snippets.values()})
                        added = False
                        for name in dict.fromkeys(missing):
                            have = [x for x in auto_lifted if x[0] == name]
                            if have:
                                if auto_lifted[0][0] != name: auto_lifted.remove(have[0]); auto_lifted.insert(0, have[0]); added = True
                                continue
                            for rel in srcs:
                                try: body = extract_function(os.path.join(REPO, rel), name)
                                except RuntimeError: continue
                                auto_lifted.insert(0, (name, '// auto-lifted from %s\n' % rel + body + '\n'))
                                added = True; break
                        if not added or attempt == 15: raise
                        with open(os.path.join(wd, 'snip_AUTO.inc'), 'w') as f:
                            f.write('// helpers lifted automatically because lifted code refers to them\n' + ''.join(b for _, b in auto_lifted))
    except RuntimeError as e:
        # the harness no longer compiles against /repo (an internal name it reaches into changed): no verdict, never a VIOLATION
        print('INCONCLUSIVE harness does not compile against the current tree: %s' % str(e)[:4000])
        return 3
    results = []
    nproc = int(os.environ.get('VERIF_JOBS', '16'))
    with ProcessPoolExecutor(max_workers=nproc) as ex:
        futs = {}
        for j in alljobs:
            lls = [units[(u, tuple(j.defines))] for u in j.extra_units + [j.unit]]
            futs[ex.submit(run_job, j, lls, wd)] = j
        for fu in as_completed(futs):
            j = futs[fu]
            try: r = fu.result()
            except Exception as e:
                r = {'job': j.name, 'status': 'inconclusive', 'error': 'worker died: ' + repr(e), 'wall_s': 0}
            r['_job'] = j
            results.append(r)
            if os.environ.get('VERIF_VERBOSE'):
                print('[%s] %s %s paths=%s wall=%ss %s' % (pid, r['job'], r['status'], r.get('paths'), r.get('wall_s'), r.get('error', '')), flush=True)
                for ls in r.get('locksets', []): print('    lockset %s %s %s held=%s' % (ls['role'], ls['member'], ls['access'], ls['held']), flush=True)
    results.sort(key=lambda r: r['job'])
    # triage
    violations = []; known_hits = []; inconclusive = []; unconfirmed = []
    os.makedirs(os.path.join(OUT, 'replay'), exist_ok=True)
    validated = 0; validation_fail = []
    for r in results:
        j = r['_job']
        fid = getattr(j, 'finding', None)
        if r['status'] == 'inconclusive':
            if fid: continue   # the finding run is advisory only
            inconclusive.append(r); continue
        if fid:
            if r['status'] == 'violation':
                known_hits.append((fid, r))
            continue
        if r['status'] == 'violation':
            for n, v in enumerate(r['violations'][:5]):
                nr = None; conf = None
                if v['kind'] == 'race':
                    fid_r = (j.lockset.get('known') or {}).get(v.get('member'))
                    if fid_r in known_ids:
                        known_hits.append((fid_r, r)); continue
                    if j.lockset.get('tsan_entry'):
                        b = native_build(j.unit, wd, j.defines, san='thread')
                        if b:
                            env = dict(os.environ, TSAN_OPTIONS='halt_on_error=0 report_signal_unsafe=0')
                            try:
                                pr = subprocess.run([b, j.lockset['tsan_entry'], '/dev/null', '0'], capture_output=True, text=True, timeout=300, env=env, errors='replace')
                                nr = {'rc': pr.returncode, 'out': pr.stdout[-500:], 'err': pr.stderr[:3000], 'data_races': pr.stderr.count('WARNING: ThreadSanitizer: data race')}
                                conf = nr['data_races'] > 0
                            except subprocess.TimeoutExpired:
                                nr = {'rc': 'timeout', 'out': '', 'err': ''}; conf = None
                elif j.engine == 'S' and j.native and v.get('model') is not None:
                    b = native_build(j.unit, wd, j.defines)
                    if b:
                        if v['kind'] == 'universal':
                            # no single input to replay: 300 native runs on random values of the same symbols must not reach the tag either
                            import random as _rnd
                            rg = _rnd.Random(12345); hit = False; nr = None
                            for it in range(300):
                                mdl = [(nm, w, rg.getrandbits(w)) for nm, w, _ in v['model']]
                                nr = native_run(b, j.entry, j.args, mdl, wd, '%s_u%d' % (j.name.replace('/', '_'), it % 4))
                                if ('REACH ' + v['tag']) in nr['out']: hit = True; break
                                if nr['rc'] not in (0,): break
                            conf = (not hit) and nr is not None and nr['rc'] == 0
                        else:
                            nr = native_run(b, j.entry, j.args, v['model'], wd, '%s_%d' % (j.name.replace('/', '_'), n))
                            conf = native_confirms(nr, v)
                rp = os.path.join(OUT, 'replay', '%s_%s_%d.json' % (pid, j.name.replace('/', '_').replace('@', '_'), n))
                json.dump({'property': pid, 'job': j.name, 'unit': j.unit, 'entry': j.entry, 'args': j.args, 'defines': j.defines,
                           'kind': v['kind'], 'msg': v['msg'], 'model': v.get('model'), 'stack': v.get('stack'),
                           'native': nr, 'native_confirms': conf, 'cbmc_trace': v.get('trace')}, open(rp, 'w'), indent=1)
                if conf is False and j.native:
                    unconfirmed.append((r, v, rp))
                else:
                    violations.append((r, v, rp, conf))
        # translation validation: replay sample witnesses natively
        if j.engine == 'S' and j.native and r.get('samples') and os.environ.get('VERIF_NO_NATIVE') is None and tier_validate(j):
            b = native_build(j.unit, wd, j.defines)
            if b:
                for n, smp in enumerate(r['samples'][:2]):
                    nr = native_run(b, j.entry, j.args, smp['model'], wd, 'w_%s_%d' % (j.name.replace('/', '_'), n))
                    obs = [(t, v) for t, v in (smp.get('observed') or [])]
                    nobs = []
                    for ln in nr['out'].splitlines():
                        if ln.startswith('OBS '):
                            p = ln.split(); nobs.append((p[1], int(p[2])))
                    okrc = (nr['rc'] == 0 and smp['status'] == 'ok') or (nr['rc'] == 7 and smp['status'] == 'uncaught')
                    if okrc and [tuple(x) for x in obs] == nobs[:len(obs)]: validated += 1
                    elif nr['rc'] in (4, 5): pass
                    else: validation_fail.append({'job': j.name, 'sample': smp, 'native': nr})
    for r in results: r.pop('_job', None)
    ev = evidence(pid, tier, seed, results, violations, known_hits, inconclusive, unconfirmed, validated, validation_fail, time.time() - t0, mod)
    os.makedirs(os.path.join(OUT, 'evidence'), exist_ok=True)
    json.dump(ev, open(os.path.join(OUT, 'evidence', pid + '.json'), 'w'), indent=1, default=str)
    for fid in sorted({f for f, r in known_hits}):
        print('KNOWN-FINDING: property=%s %s (%s)' % (pid, known_ids[fid].get('what', fid), fid))
    for r, v, rp in unconfirmed:
        print('UNCONFIRMED (solver counterexample did not reproduce natively; treated as encoding issue, not reported): %s %s %s' % (r['job'], v['kind'], v['msg']))
    for r in inconclusive:
        print('INCONCLUSIVE job=%s: %s' % (r['job'], r.get('error', '')[:600]))
    for vf in validation_fail[:3]:
        print('ENCODING-MISMATCH job=%s native rc=%s out=%s' % (vf['job'], vf['native']['rc'], vf['native']['out'][-300:].replace('\n', ' | ')))
    if violations:
        seen = set()
        for r, v, rp, conf in violations:
            key = (r['job'], v['kind'], v['msg'])
            if key in seen: continue
            seen.add(key)
            print('  %s: [%s] %s%s' % (r['job'], v['kind'], v['msg'], '' if conf is None else ' (replayed natively: reproduces)'))
            print('VIOLATION property=%s replay=%s' % (pid, rp))
        return 1
    if inconclusive or unconfirmed or validation_fail: return 3
    print('OK property=%s tier=%s jobs=%d wall=%.1fs' % (pid, tier, len(results), time.time() - t0))
    return 0

def tier_validate(j):
    return True

def evidence(pid, tier, seed, results, violations, known_hits, inconclusive, unconfirmed, validated, validation_fail, wall, mod):
    paths = sum(r.get('paths', 0) or 0 for r in results)
    queries = sum((r.get('stats') or {}).get('queries', 0) for r in results) + sum(r.get('cbmc_properties', 0) for r in results)
    obligations = sum((r.get('stats') or {}).get('asserts', 0) + (r.get('stats') or {}).get('ub_obligations', 0) for r in results) + sum(r.get('cbmc_properties', 0) for r in results)
    tags = set()
    for r in results:
        for t in (r.get('reached') or {}): tags.add((r['job'], t))
    nontrivial = len(tags) + sum(1 for r in results if r.get('engine') == 'B' and r.get('witness_ok'))
    samples = []
    for r in results:
        for t, mv in (r.get('witness') or {}).items():
            if len(samples) < 6: samples.append({'job': r['job'], 'reach': t, 'inputs': mv[:24]})
        if r.get('engine') == 'B' and r.get('witness_sample') and len(samples) < 8: samples.append({'job': r['job'], 'cbmc_witness': r['witness_sample']})
    if not samples:
        for r in results:
            for smp in (r.get('samples') or [])[:1]: samples.append({'job': r['job'], 'path_sample': smp})
    funcs = sorted({f for r in results for f in (r.get('functions') or [])})
    return {
        'property_id': pid, 'tier': tier, 'seed': seed, 'level': 'model_checking',
        'coverage': {
            'evaluations': max(queries, 1) if results else 0,
            'distinct_nontrivial': nontrivial,
            'rule': 'evaluations = solver queries discharged (Engine S: z3 checks; Engine B: CBMC properties); a case is non-trivial when a '
                    'named reachability witness (verif_reach tag / CBMC WITNESS twin) of a harness instance was shown satisfiable, counted per (job, tag)',
            'samples': samples or [{'note': 'no witness recorded'}],
            'exhaustive': not inconclusive,
            'obligations': obligations, 'discharged': obligations - len(violations),
            'paths': paths, 'forks': sum((r.get('stats') or {}).get('forks', 0) for r in results),
            'merged_calls': sum((r.get('stats') or {}).get('merged_calls', 0) for r in results),
            'enumerations': sum((r.get('stats') or {}).get('enumerations', 0) for r in results),
            'traces_validated_against_impl': validated,
            'solver': 'z3 %s (python, SolverFor QF_BV) / cbmc 6.11 where engine=B' % z3ver(),
            'solver_s': round(sum(r.get('solver_s', 0) or 0 for r in results), 1),
            'peak_rss_mb': max([r.get('peak_rss_mb', 0) or 0 for r in results] or [0]),
            'functions_encoded': funcs[:400], 'functions_encoded_count': len(funcs),
            'jobs': [{k: r.get(k) for k in ('job', 'engine', 'entry', 'args', 'bounds', 'status', 'paths', 'steps', 'statuses', 'wall_s', 'solver_s', 'reached', 'error', 'kf', 'cbmc_cmd', 'unwind')} for r in results],
            'known_findings_reproduced': [f for f, r in known_hits],
            'inconclusive': [r['job'] for r in inconclusive],
            'trusted_base': ['clang-14 -O1 front/mid end', 'engine/irparse.py', 'engine/symex.py', 'engine/models.py', 'engine/ir2c.py', 'z3', 'cbmc 6.11.0'],
            'explanation': getattr(mod, 'EXPLANATION', ''),
        },
        'assumptions': list(getattr(mod, 'ASSUMPTIONS', [])),
        'wall_s': round(wall, 1),
        'violations': len(violations),
    }

def z3ver():
    try:
        import z3; return z3.get_version_string()
    except Exception: return '?'

def replay(path):
    d = json.load(open(path))
    wd = workdir()
    try:
        b = native_build(d['unit'], wd, d.get('defines', []))
        if not b:
            print('native build failed'); return 2
        nr = native_run(b, d['entry'], d['args'], d['model'] or [], wd, 'replay')
        print(nr['out']); print(nr['err'][-2000:], file=sys.stderr)
        conf = native_confirms(nr, d)
        print('REPRODUCES' if conf else 'DOES-NOT-REPRODUCE')
        return 1 if conf else 0
    finally:
        shutil.rmtree(wd, ignore_errors=True)

if __name__ == '__main__':
    sys.exit(main())
