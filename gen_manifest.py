#!/usr/bin/env python3
"""Regenerates MANIFEST.json from the table below (claimed checks) and NA (not claimed, with the reason)."""
import json, os
ROOT = os.path.dirname(os.path.abspath(__file__))
S = 'Engine S: symbolic execution of the clang-14 LLVM IR of the real translation unit (harness #includes the .cpp), z3 decides every assertion and every memory/UB obligation on every path'
CLAIMED = {
 'C14': ('Bounded symbolic check of the framing of the real network/SessionManager.cpp with the sockets modelled: send_encrypted emits nonce || big-endian length || ChaCha20 ciphertext (decrypting to the payload) for every payload within the limit and nothing above 1 MiB; receive_loop delivers every frame to the handler exactly once, byte for byte and in order, and an announced length above 1 MiB ends the session without reading the body.',
         'reader threads, accept loop, handshake exchange and TCP delivery itself are not encoded; payloads 0..3 B (quick) / up to 70 B (thorough), 1-2 frames; logging is a sink'),
 'C30': ('Bounded symbolic check of the two places where eph fetch turns delivered bytes into a file, lifted from the current src/main.cpp: decrypt_chunk_with_manifest (transport / relay paths; real Shamir, CryptoManager, ChaCha20) returns plaintext only if it hashes to the manifest content hash, and finalize_fetch (control-hint, control:// fallback, local-daemon paths) writes the output file only if the delivered bytes hash to it.',
         'the fetch command around them (discovery, sockets, which path is tried when) is not encoded; SHA-256 uninterpreted (real natively); 1-2 shards, 0..2 delivered bytes'),
 'C25': ('Bounded symbolic check of the real RelayServer driven through on_client_event with a model of the sockets: over every sequence of 4 (quick) / 5 (thorough) events drawn from REGISTER / data / disconnect of a registrant and CONNECT / identity+data / disconnect of two connectors, pairings stay symmetric, a registered peer has at most one connector, a closed bridge side takes its partner down, and relayed bytes reach only the bridge partner, complete and in order.',
         'three clients with fixed peer ids and well-formed messages; EventLoop (epoll), accept()/listen() not encoded; recv/send/close are the harness'),
 'C26': ('Bounded symbolic check of the real RelayServer with a model of the sockets: arbitrary byte streams from two clients (two reads of 0..1 / 0..2 symbolic bytes each) and four well-formed traffic scenarios, followed by disconnects in every order: no invalid memory access, no escaping exception, and afterwards no session, registration or open descriptor remains (each descriptor closed exactly once).',
         'unbounded line growth (read_buffer has no cap) and longer byte streams are outside the bound; the epoll loop and accept path are not encoded'),
 'C29': ('Bounded symbolic check of the daemon\'s send_response and the control client\'s recv_line / recv_exact / parse_response (both lifted from the current sources and connected back to back): for every response with symbolic field values over the alphabet the handlers emit (printable ASCII and line feed, 0..3 / 0..4 characters) and symbolic payload bytes the client holds exactly the status, fields and payload the daemon produced.',
         'the handlers that build the fields and the CLI printing (print_list_response) are not encoded, nor TCP segmentation; values up to 3 (4) characters, payload up to 2 B'),
 'C22': ('Bounded symbolic check of SwarmCoordinator::compute_plan over the real KademliaTable: every shard is assigned to exactly one provider, providers are distinct live peers other than the node, each gets at least one shard, counts differ by at most one, and the provider count equals the stated formula for every 16-bit minimum-provider / target-replica setting, candidate sample 0..8 and threshold.',
         'table contents per job (0..4 live contacts, optional expired contact and local id), 1..6 shards; peer-load snapshot empty and score jitter fixed (libstdc++ uses long double there); diagnostics text is a sink'),
 'C27': ('Bounded symbolic check of the control-plane handlers handle_stop / handle_store / handle_fetch (lifted from the current daemon/ControlServer.cpp into a class with a recording node and recording send_response): with a control token configured, a request whose token is absent or any different 2-4 byte string gets an *_UNAUTHENTICATED error and nothing is stored, registered, fetched, written or stopped; the exact token is accepted.',
         'ControlServer::Impl itself (sockets, accept thread), recv_line / parse_request and handle_client dispatch are not encoded: requests are handed over parsed'),
 'C28': ('Bounded symbolic check of STORE admission in the lifted handle_store (size cap, TTL text with symbolic characters against a symbolic window, proof-of-work gate) and of the rate limits: 7 STOREs (13 streamed FETCHes on thorough) from one client address at symbolic times with absent / changing / constant TOKEN headers - at most 6 (12) accepted in any 30 s window.',
         '"refused before the body is read" (parse_request / recv) is not encoded; store_pow_valid is a stub with an arbitrary verdict (C19); the stream cap is 64 B in the harness'),
 'C37': ('Bounded symbolic check of StructuredLogger::log and its escaping on events / field names / values whose bytes are all symbolic: the record is exactly one line of valid JSON whose strings decode back (RFC 8259 un-escaper) to exactly what was logged.',
         'std::ostringstream / std::clog are source-level sink classes in the engine (validated against the real iostreams on every native replay); symbolic bytes are ASCII plus a fixed valid 2-byte UTF-8 sequence; event 1..2 (3) symbolic bytes, 0..1 (2) fields'),
 'C04': ('Bounded symbolic check of the real ChunkStore with persistence on, its operating-system primitives replaced by a model disk: over every sequence of 3 (quick) / 4 (thorough) put / lookup / sweep operations a chunk file exists only for a stored, not yet cleaned-up chunk, holds the stored bytes and is gone after the cleanup following the expiry (lookup-noticed expiry and failed writes included); restart on the same directory is the open known finding.',
         'persist_chunk_to_disk / secure_wipe_file / ensure_storage_directory themselves (std::filesystem + fstream, fsync, crash inside a write) are not encoded: only when the store invokes them'),
 'C05': ('Bounded symbolic check of the cleanup branch of Node::tick with audit_ttl and the cleanup notifications (lifted onto a partial Node with the real ChunkStore and KademliaTable): after a cleanup tick at or after a local chunk\'s deadline none of record, self-announcement, locator, key shares, cached manifest and swarm plan remains, the TTL audit is healthy, and the expiry is reported exactly once - also when a lookup noticed it first.',
         'one local chunk with the state Node::store_chunk leaves behind (built by the harness), optional lookup, 1 (quick) / 2 (thorough) ticks; the non-cleanup parts of tick are cut; manifests learned from other peers are not in the pre-state'),
 'C11': ('Bounded symbolic check of the replica import Node::receive_chunk (lifted onto a partial Node with the real ChunkStore, KademliaTable, Shamir, CryptoManager, ChaCha20): a replica is stored, announced, cached or returned only if its decryption hashes to the manifest content hash; the stored bytes are the imported ciphertext; its lifetime and self-announcement do not outlive the manifest.',
         'ONLY the tampered-replica clause: the store -> lookup -> CLI decryption round trip (store_chunk / fetch_chunk / main.cpp) is not encoded; SHA-256 uninterpreted; 1-2 shards, ciphertext 0..2 B'),
 'C35': ('Bounded symbolic check that the replica-import handler Node::receive_chunk lets no exception escape and performs no invalid memory access for any share set (0..3 shards, repeated indices included), threshold, expiry and ciphertext within the bounds; composes with the total-decoder checks C16, C18, C33, C38.',
         'ONLY this handler and the decoder checks: session threads, control-plane parser, other handlers and liveness are not encoded'),
 'C03': ('Bounded symbolic check of manifest-derived lifetimes: manifest_ttl for every expiry / wall-clock reading / sanitised window never exceeds the manifest\'s remaining life, lies in [min, max] and rejects exactly the expired or too-short manifests; Node::ingest_manifest (lifted onto a partial Node with the real KademliaTable) changes state only on acceptance and the cached key shares then expire no later than the manifest.',
         'ONLY the key-share and rejection clauses: provider contacts (handle_announce), replica copies (receive_chunk) and pending fetches are not encoded; decode_manifest supplied by the harness; ingest job over small time ranges'),
 'C20': ('Bounded symbolic check of Node::perform_handshake (lifted from the current core/Node.cpp onto a partial Node with the real KeyManager, KeyExchange, ReputationManager): over every history of 2 (quick) / 3 (thorough) inbound handshakes of one claimed peer with symbolic keys, nonces and clock gaps, acceptance implies a valid key, rejection registers nothing, keeps existing keys and lowers the reputation; with symbolic difficulty, acceptance happens exactly when the key is valid and the PoW predicate holds.',
         'handle_transport_handshake (negotiation, ack encoding) not encoded; histories run with difficulty 0; DH secret and SHA/HMAC uninterpreted; SessionManager::register_peer_key is a recording stub'),
 'C21': ('Bounded symbolic check of the announce throttle and lock-out kernels (lifted from the current core/Node.cpp onto a partial Node): over every timed sequence of 4 (quick) / 6 (thorough) announces of two interleaved peers an announce is admitted exactly when it respects the minimum interval and the burst limit of the window; three rejections within 120 s lock the peer out for exactly 180 s.',
         'ONLY the throttle / lock-out clause: the admissibility gate of handle_announce (manifest, shares, PoW, version, announcer identity) is not encoded'),
 'C23': ('Bounded symbolic check of the upload-slot bookkeeping (member functions lifted from the current core/Node.cpp onto a partial Node): over every sequence of 3 (quick) / 4 (thorough) requests, ticks and acknowledgements with symbolic limits, peers, chunks and clock, uploads stay within the overall and per-peer limits and each peer\'s slot counter equals its uploads in flight.',
         'dispatch_upload (lookup, signing, send, negative ack) is cut to an arbitrary outcome: the negative-acknowledgement clause is not decided; limits 0..2, two peers x two chunks'),
 'C24': ('Bounded symbolic check of fetch-scheduling kernels (lifted from the current core/Node.cpp onto a partial Node): retry delay = initial back-off doubled per attempt up to the maximum with the documented fallbacks, nothing scheduled once the attempt limit is exhausted; per-peer in-flight counter equals outstanding requests and never exceeds the limit over every pending/dispatch/clear sequence and over every announce / dispatch / arrival sequence through the lifted schedule_assigned_fetch and dispatch_pending_fetch (re-announcements included).',
         'process_pending_fetches (retry timing, manifest expiry, held-locally drop, provider refresh) is not encoded: those clauses are outside the claim; transport sends are arbitrary outcomes'),
 'C17': ('Bounded symbolic check of the manifest codec: base64 pair vs RFC 4648 for every byte string of the listed lengths; decode_manifest(encode_manifest(m)) == m (up to whole-second expiry, empty scheme -> transport) for manifests with symbolic contents and the listed shapes; refusal exactly at the representability limits of every counted list and length-prefixed string.',
         'round-trip shapes and string lengths bounded as listed in the evidence; binary-layer jobs abstract base64 as the identity (discharged by the base64 jobs); std::map primitives modelled'),
 'C18': ('Bounded symbolic check that manifest decoding is total: base64 layer on every string of the listed lengths, URI prologue, and the binary decoder on arbitrary exact-size payloads of the listed lengths for every format version: no out-of-bounds access, no flagged-arithmetic overflow (expiry conversion included), only std::invalid_argument escapes.',
         'payload lengths bounded as listed (header and the first bytes of every later section); longer payloads outside the bound'),
 'C31': ('Bounded symbolic check of the three filename sanitisers (CLI fetch lambda and Node::store_chunk block lifted from the current source, security::sanitize_filename_hint) on inputs whose bytes are all symbolic: no separator / control / reserved character, never . or .., at most 255 bytes.',
         'inputs: optional directory prefix + 0..3 (quick) / 0..4 (thorough) symbolic bytes and 300-byte names with symbolic bytes at the 255-byte cut; filesystem::path::filename() is a POSIX model (validated against libstdc++ on every native replay); the surrounding main()/store_chunk code is not encoded'),
 'C32': ('Bounded symbolic check of configuration layering lifted from the current src/main.cpp (namespace config: merge_objects, resolve_profile, collect_environment_overrides, get_*_any; apply_profile_to_options; load_configuration): with presence and value of every layer symbolic, the effective setting equals the value of the highest-precedence layer that sets it (flag, environment override, selected profile, parent, grandparent, unset); cyclic or missing profiles raise ConfigError.',
         'representative options control.port (five layers) and storage.persistent; extends chains 0..2; the YAML/JSON text parsers, file reading (load_document is replaced by the harness-built document) and argv parsing are not encoded; std::map / std::set are the unbalanced-tree models'),
 'C38': ('Bounded symbolic check of parse_update_metadata: JSON string decoding (raw bytes, escapes, \\uXXXX, surrogate pairs with symbolic digits) against an RFC 8259 reference decoder; totality and memory safety on every byte string up to 4 (quick) / 5 (thorough) bytes plus longer buffers with a fixed first byte; recursion depth bounded for 3000 nested openers.',
         'string shapes and input lengths bounded as listed in the evidence; lone surrogates outside the claim; strtod modelled'),
 'C01': ('Bounded symbolic check of the real ChunkStore: every operation sequence of length 3 (quick) / 4 (thorough) over put / get / get_record / sweep_expired / snapshot starting with a store, two chunk ids, symbolic TTLs, payload bytes and clock; a deadline oracle decides every lookup including lookups exactly at the deadline, overwrite replaces bytes and deadline, sweep removes exactly the expired chunks.',
         'event times on a 1/8 s grid (order-isomorphic to any real schedule of <= 8 events), TTL -8..247 s, persistence off; Node-level fetch/peer-request/listing paths (which call ChunkStore) are not encoded'),
 'C06': ('Bounded symbolic check of the real KademliaTable provider table: every operation sequence (announce / lookup / sweep / withdraw) of the listed length starting with an announcement over 2-3 peers and 1-2 chunks with symbolic TTLs, addresses and clock, closed by a lookup of every chunk; lookups return exactly the live non-withdrawn providers with their latest expiry/address; cap of 20 keeps those expiring last (symbolic 21st lifetime).',
         'event times on a 1/8 s grid, TTL -4..251 s; 21 fully symbolic lifetimes (21! sort orders) outside the bound'),
 'C07': ('Bounded symbolic check of routing buckets: bucket index for two fully symbolic 256-bit ids equals the highest differing bit; closest-peer queries over 2 (quick) / 3 (thorough) symbolic contacts, expiries, target and limit against an XOR-distance oracle; bucket shape (<= 16, right bucket, single entry with newest data, never the local id) after symbolic registration sequences and a 17-contact overflow.',
         'contact ids symbolic in bytes 30-31 with byte 0 fixing the bucket class; see evidence assumptions'),
 'C08': ('Symbolic equivalence of Sha256::transform with a FIPS 180-4 reference for every state and block; update/finalize vs the FIPS padding reference for the listed message lengths and every 2-way (and listed 3-way) split with both compressions abstracted by one uninterpreted function; HmacSha256::compute vs RFC 2104 (keys up to 70 B, also > block size); verify accepts exactly the correct 32-byte tag.',
         'message lengths bounded as listed (<= 129 B quick, <= 130 B thorough); messages >= 2^61 bytes outside the claim'),
 'C09': ('Symbolic equivalence of ChaCha20::apply on one block with the RFC 8439 block function for every key, nonce, counter and input; stream layout for the listed lengths with a fully symbolic 32-bit counter (wrap included) using one uninterpreted function for both block functions; involution; CryptoManager counter/nonce plumbing.',
         'lengths bounded as listed; all-zero key (replaced by a random key) outside the claim; random_device stubbed'),
 'C12': ('Symbolic check of the public-key gate for all 2^32 candidates, of the handshake key material (symmetric, injective on unordered pairs) and of the session key both ends register (= HMAC(shared secret, material)); Diffie-Hellman agreement for bounded private scalars.',
         'DH agreement only for scalars below 2^4 (2^6 thorough) plus listed high-bit scalars; Node::perform_handshake itself not encoded; SHA/HMAC uninterpreted (C08)'),
 'C39': ('Bounded symbolic check of two KeyManagers (the two ends of a session) with symbolic rotation interval and tick times: without a rotation the keys stay equal; every history with a rotation is the listed known finding (key derived from the local steady clock, no re-key/teardown).',
         'KeyManager level only (Node::rotate_session_keys forwards the key, read not encoded); 1-2 ticks per end; HMAC uninterpreted'),
 'C02': ('Bounded-free symbolic check (no loops): sanitize_config, clamp_chunk_ttl and enforce_manifest_ttl with every duration a free 64-bit value and every difficulty a free byte satisfy the window inequalities of the statement.',
         'only the sanitising kernels of core/Node.cpp are encoded; the store/announce call sites and the ControlServer TTL refusal are outside the claim'),
 'C19': ('Bounded symbolic check: leading-zero counters of StoreProof.cpp, TokenChallenge.cpp and Node.cpp equal a bit-level reference (quick: first non-zero byte within 5 bytes; thorough: every digest); store_pow_valid accepts exactly on the capped target and hashes exactly chunk id, size, length-prefixed filename, nonce.',
         'Sha256 is a recording stub returning a solver-chosen digest (hash itself would be C08); handshake/announce digests in Node.cpp, main.cpp copies and the solver loops are outside the claim'),
 'C34': ('Symbolic check of the address classifiers gating every auto-advertised endpoint: all 2^32 IPv4 addresses as octets, and dotted-quad / ::ffff:-mapped texts with symbolic digits, against the IANA special-purpose blocks named in the statement.',
         'candidate assembly, warn mode, auto-advertise-off and Node publication are outside the claim; text shapes bounded as listed in the evidence'),
 'C10': ('Bounded symbolic check: GF(2^8) kernels vs a bitwise reference for all operand pairs; split/combine round trip with symbolic secret byte and coefficients over every ordered t-subset for the listed (t,n); refusal of short or repeated-index share sets.',
         'random_device stubbed; one secret byte position symbolic at a time; (t,n) bounded (t<=2 quick, t<=3 thorough, n=255 with t=1); see DESIGN 7/C10'),
 'C13': ('Bounded symbolic check of decode_signed/encode_signed for the listed buffer lengths: MAC is checked over exactly the preceding bytes with the session key, acceptance iff MAC verdict and prefix decodes.',
         'HMAC itself is a recording stub (its correctness is C08, not claimed here); listed lengths only'),
 'C15': ('Bounded symbolic round trip decode(encode(m)) for every message type, version 0..255 symbolic, all scalar fields symbolic, string/list lengths 0..3 (quick) / 0..5 (thorough).',
         'string/list lengths bounded; message type agrees with payload alternative'),
 'C16': ('Bounded symbolic check of decode/decode_signed on arbitrary exact-size heap buffers of the listed lengths: no out-of-bounds access, no UB flagged by nsw/nuw/shift obligations, no exception, re-encoding is a prefix of the input.',
         'listed buffer lengths (<= 96 B plain, <= 123 B signed); HMAC verdict nondeterministic'),
 'C33': ('Bounded symbolic check of parse_stun_response on arbitrary datagrams (<= 48 B quick, <= 64 B thorough) and transaction ids: memory safety and agreement with an independent RFC 5389 attribute walk.',
         'inet_ntop replaced by a recording stub; datagram length bounded'),
}
NA = {}
# ---- descriptions revised after the checks were deepened (override the entries above)
CLAIMED.update({'C03': ("Bounded symbolic check of manifest-derived lifetimes: manifest_ttl for every expiry / wall-clock reading / sanitised window never exceeds the manifest's remaining life, lies in [min, max] "
         'and rejects only expired / too-short manifests; through the lifted Node::ingest_manifest, Node::handle_announce and Node::receive_chunk (partial Node, real KademliaTable / ChunkStore) '
         'cached key shares, provider contacts learned from an ANNOUNCE (any announced TTL, 0 included) and replica copies / self-announcements expire no later than the manifest, and nothing changes '
         'on rejection.',
         'pending fetches dropped at manifest expiry are decided in C24, cached manifests / swarm plans in C05; decode_manifest is supplied by the harness; bounds as listed in the evidence'),
 'C04': ('Bounded symbolic check of the real ChunkStore with persistence on, including the real persist_chunk_to_disk, over a model disk (std::ofstream and filesystem::status are source-level / '
         'redirected models whose open, short write and flush may fail): over every sequence of 3 (quick) / 4 (thorough) put / lookup / sweep operations a chunk file exists only for a stored, not '
         'yet cleaned-up chunk, holds exactly the stored bytes (no partial file survives a failed store) and is gone after the cleanup that follows the expiry; the restart case is the listed open '
         'finding.',
         'secure_wipe_file / ensure_storage_directory themselves (overwrite passes, remove, directory creation), fsync and a crash of the process mid-write are not encoded; these jobs are not '
         'replayed natively (the model disk exists only in the engine)'),
 'C05': ('Bounded symbolic check of the cleanup branch of Node::tick with audit_ttl and the cleanup notifications (lifted onto a partial Node with the real ChunkStore and KademliaTable): after a '
         "cleanup tick at or after a chunk's deadline none of record, self-announcement, locator, key shares, cached manifest, swarm plan remains, the audit is healthy and the expiry is reported "
         'exactly once (also when a lookup noticed it first); provider contacts of other peers (two providers of one chunk and one of another, symbolic lifetimes) are swept over 2 (3) ticks and live '
         'ones are kept.',
         'one local chunk with the state Node::store_chunk leaves behind (built by the harness), optional lookup, 1 (quick) / 2 (thorough) ticks; the non-cleanup parts of tick (uploads, fetches, key '
         'rotation) are cut'),
 'C10': ('Bounded symbolic check: GF(2^8) kernels vs a bitwise reference for all operand pairs; split/combine round trip with symbolic secret byte and coefficients over every ordered t-subset for '
         'the listed (t, n); combine equals Lagrange interpolation at 0 for enumerated index tuples; refusals (too few shares, repeated / zero indices); termination for n = 255; secrecy as a '
         'necessary condition: for threshold 2 and 6 (thorough also 3, 4, 8) some value of the randomness makes t-1 shares interpolate to something other than the secret (an existential clause '
         'decided by complete exploration, confirmed by native sampling).',
         'random_device stubbed; one secret byte position symbolic at a time; (t,n) bounded (t<=2 for the split/combine round trip, t=3 for interpolation against the reference, n=255 with t=1); the full information-theoretic secrecy '
         'statement (a forall-exists query per share set) is outside the bounds'),
 'C11': ('Bounded symbolic check of the replica import Node::receive_chunk (lifted onto a partial Node with the real ChunkStore, KademliaTable, Shamir, CryptoManager, ChaCha20): a replica is stored, '
         'announced, cached or returned only if its decryption hashes to the manifest content hash (the optional attestation digest is symbolic too), the stored bytes are the imported ciphertext and '
         'its lifetime does not exceed the manifest; round trip: a plaintext encrypted with encrypt_with_key under the chunk id is recovered by receive_chunk, including chunk ids whose initial block '
         'counter wraps.',
         'store_chunk / fetch_chunk themselves and the CLI decryption (C30) are not encoded; SHA-256 uninterpreted (real natively); 0..3 shards, plaintext / ciphertext of 0..3 bytes'),
 'C14': ('Bounded symbolic check of the framing of the real network/SessionManager.cpp with the sockets modelled: send_encrypted emits nonce || big-endian length || ChaCha20 ciphertext (decrypting '
         'to the payload) and nothing above 1 MiB; receive_loop hands every frame to the handler once, byte for byte and in order; an announced length above 1 MiB ends the session without reading '
         'the body; on an inbound session (read_handshake_payload with its timeout, then receive_loop) every frame is delivered whatever the pauses between sends (SO_RCVTIMEO modelled: no handshake '
         'timeout may stay armed).',
         'reader threads, accept loop, handshake message exchange and TCP delivery itself are not encoded; payloads 0..3 B (quick) / up to 70 B (thorough), 1-3 frames; logging is a sink'),
 'C19': ('Bounded symbolic check: leading-zero counters of StoreProof.cpp, TokenChallenge.cpp and Node.cpp equal a bit-level reference (quick: first non-zero byte within 5 bytes; thorough: every '
         'digest); store_pow_valid accepts exactly the nonces whose digest meets the difficulty and hashes exactly the documented encoding; the handshake gate of Node::perform_handshake uses the '
         'verdict for the offered (key, nonce) in every handshake of a history (stand-in predicate, shared with C20).',
         'Sha256 is a recording stub returning a solver-chosen digest (hash itself is C08); announce digests in Node.cpp, main.cpp copies and the PoW solver loops are outside the claim'),
 'C20': ('Bounded symbolic check of Node::perform_handshake (lifted from the current core/Node.cpp onto a partial Node with the real KeyManager, KeyExchange, ReputationManager): over every history '
         'of 3 (quick) / 4 (thorough) inbound handshakes of one claimed peer (symbolic keys, nonces, gaps inside and outside the cooldown) acceptance implies a valid key, a rejection registers '
         'nothing, keeps existing keys and lowers the reputation; with a stand-in PoW predicate every handshake of such a history is accepted exactly when key and predicate hold; with the real '
         'predicate and symbolic difficulty one handshake is accepted exactly when the key is valid and the PoW holds.',
         'handle_transport_handshake (negotiation, ack encoding) not encoded; DH secret and SHA/HMAC uninterpreted; SessionManager::register_peer_key is a recording stub'),
 'C21': ('Bounded symbolic check of Node::handle_announce with verify_announce_pow and the throttle / lock-out kernels (lifted onto a partial Node with the real KademliaTable and ReputationManager): '
         'for one ANNOUNCE with symbolic lock-out entry, earlier announce, announcer, manifest presence / decodability / chunk / shares / threshold / remaining life, assigned shard, PoW difficulty, '
         'message version and PoW verdict, node state changes only if the announce is admissible, an admissible one is taken up and the cached manifest is the one carried; over every timed sequence '
         'of 4 (quick) / 6 (thorough) announces of two peers an announce gets through exactly when it respects the minimum interval and the burst window; three rejections within 120 s lock a peer '
         'out for exactly 180 s; lock-out operations do not change throttle verdicts.',
         'decode_manifest (C17/C18) and the PoW predicate (C19) are symbolic verdicts; update_swarm_plan, note_peer_seed, schedule_assigned_fetch, broadcast_manifest are recorders; whole seconds'),
 'C22': ('Bounded symbolic check of SwarmCoordinator::compute_plan over the real KademliaTable: every shard is assigned to exactly one provider, providers are distinct live peers other than the node '
         '(leases in their last half second included), each gets at least one shard, counts differ by at most one and the provider count follows the stated formula for every configuration and '
         'threshold.',
         'table contents per job (0..4 live contacts, optional expired contact and local id), 1..6 shards; peer-load snapshot empty and score jitter fixed (the ranking score is floating point, so '
         'leases are enumerated concrete values)'),
 'C24': ('Bounded symbolic check of fetch scheduling (lifted from the current core/Node.cpp onto a partial Node): retry delay = initial back-off doubled per attempt up to the maximum with the '
         'documented fallbacks, nothing scheduled once the limit is exhausted; per-peer in-flight counters equal the outstanding requests and stay within the limit across announcements, '
         're-announcements, dispatches and arrivals; with the real process_pending_fetches over announcement / tick / arrival sequences (symbolic peers, chunks, send outcomes, clock, retry settings, '
         'manifest expiry) a pending fetch is dropped once held locally or once its manifest has expired and no more requests than the attempt limit are sent per announced fetch.',
         'transport sends are an arbitrary boolean outcome; role ledger and provider refresh are cut; sequences of 2-3 events'),
 'C27': ('Bounded symbolic check of the control token gate, twice: the handlers handle_stop / handle_store / handle_fetch lifted into a class with a recording node, and the whole '
         'daemon/ControlServer.cpp (recv_line, parse_request, handle_client dispatch, handlers) driven with request bytes on a modelled socket over a partial Node: with a token configured a request '
         'without the exact token (absent, same length, shorter, longer, longer by 256 / 512 bytes; any letter case of the command word; TOKEN header before or after COMMAND) is answered '
         '*_UNAUTHENTICATED and stores, registers, fetches, writes and stops nothing; the exact token is accepted.',
         'accept thread and real sockets are not encoded; configured token "tok"; std::filesystem::absolute / parent_path are stubs; logging is cut'),
 'C28': ('Bounded symbolic check of STORE admission in the lifted handle_store (size cap, TTL text with symbolic characters against a symbolic window, proof-of-work gate) and of the rate limits: 7 '
         'STOREs / 13 streamed FETCHes from one address at symbolic times with no, varying or constant TOKEN headers are never accepted beyond 6 / 12 per 30 s window.',
         '"refused before the body is read" (parse_request / recv) is not encoded; store_pow_valid is a stub with an arbitrary verdict (C19); the stream cap is 64 B in the harness'),
 'C29': ("Bounded symbolic check of the control response path: send_response and the client's recv_line / recv_exact / parse_response (lifted, back to back) deliver exactly the fields, status and "
         'payload for symbolic values with line breaks and backslashes and for a 230-line chunk list beyond the old 16 KiB line limit; LIST through the whole daemon/ControlServer.cpp (handle_client, '
         'handle_list, send_response) and the client parser over a store of 0..3 chunks with symbolic remaining lifetimes lists every live chunk (also one in its last second) and COUNT equals the '
         'lines.',
         'the other handlers that build fields and the CLI printing (print_list_response) are not encoded, nor TCP segmentation; values up to 3 (4) characters, payload up to 2 bytes'),
 'C30': ('Bounded symbolic check of the two places where eph fetch turns delivered bytes into a file, lifted from the current src/main.cpp: decrypt_chunk_with_manifest (transport / relay paths; real '
         'Shamir, CryptoManager, ChaCha20) returns plaintext only if it hashes to the manifest content hash; finalize_fetch (control hint, control:// fallback, local daemon paths) writes the file '
         "only if the delivered bytes hash to it - with the manifest's chunk id and content hash symbolic relative to the digest of the delivered bytes and any extra response header (symbolic "
         '9-letter key, 8-character value).',
         'the fetch command around them (discovery, sockets, which path is tried when) is not encoded; SHA-256 uninterpreted (real natively); 1-2 shards, 0..3 delivered bytes'),
 'C32': ('Bounded symbolic check of configuration layering lifted from the current src/main.cpp (namespace config: merge_objects, resolve_profile, collect_environment_overrides, get_*_any; '
         'apply_profile_to_options; load_configuration): with presence and value of every layer symbolic, the effective setting equals the value of the highest-precedence layer that sets it (flag, '
         'environment override, selected profile, parent, grandparent, unset), also for a boolean with a --x / --no-x flag pair; cyclic profiles (self, 2-cycle, a tail leading into a cycle) and '
         'missing profiles raise ConfigError.',
         'representative options control.port (five layers) and storage.persistent; extends chains 0..2; the YAML/JSON text parsers, file reading (load_document is replaced by the harness-built '
         'document) and argv parsing are not encoded; std::map / std::set are the unbalanced-tree models'),
 'C34': ('Symbolic check of the address classifiers gating every auto-advertised endpoint (all 2^32 IPv4 addresses as octets, dotted-quad / ::ffff:-mapped texts with symbolic digits, against the '
         'IANA special-purpose blocks) and of the publication step: Node::refresh_advertised_endpoints (lifted onto a partial Node) over the real candidate assembly publishes nothing automatic with '
         'auto-advertise off, withholds conflicting candidates in warn mode, carries no stale automatic endpoint over, publishes nothing non-routable and keeps pinned endpoints.',
         'the NAT traversal itself and manifest hint generation are not encoded; discovery outcomes are enumerated (transport bound or not, NAT status, STUN result, external address kind / port, '
         'control host); text shapes bounded as listed in the evidence'),
 'C35': ('Bounded symbolic check that remote and control-plane input does not take the process down: Node::receive_chunk (any share set, threshold, expiry, ciphertext) and Node::handle_announce (an '
         'admissible ANNOUNCE whose shard indices and total_shares header are unrelated) let no exception escape and perform no invalid memory access; the whole daemon/ControlServer.cpp answers '
         'control requests of 0..6 (9) arbitrary bytes, any command with any one header of 0..1 (3) symbolic characters and FETCH with any OUT value without an escaping exception; the wire decoders '
         'are decided in C16, C18, C33, C38.',
         'session threads, the transport accept loop and liveness (a client that connects and sends nothing) are not encoded'),
 'C39': ('Bounded symbolic check of two KeyManagers (the two ends of a session) with symbolic rotation interval, registration and tick times: while no rotation is DUE (interval elapsed since the '
         'latest handshake or re-handshake on the rotating end) the two ends hold the same key for every tick timing, including tick timestamps older than the registration; rotations that were due '
         'are the listed open finding (each end mixes its own clock reading into the new key).',
         'KeyManager level only (Node::rotate_session_keys forwards the key, read not encoded); 1-2 ticks per end; HMAC uninterpreted')})

CLAIMED['C36'] = ('Bounded symbolic check of the lock discipline on the key and handshake state of Node: perform_handshake (transport accept thread), session_shared_key (session reader threads), rotate_session_keys (tick, under the node mutex) and session_key (control handlers, under the node mutex) are lifted from the current core/Node.cpp and run on a partial Node with the real KeyManager, KeyExchange and ReputationManager; every access to Node::key_manager_, Node::handshake_state_ and Node::reputation_ (and the heap objects they own) on every symbolic path is logged with the mutexes held, and every pair of roles that can run concurrently and touch the same member, one of them writing, must share a mutex. A pair without one is reported only after ThreadSanitizer, running the same roles as real threads, reported a data race.',
                  'a SUFFICIENT condition for race freedom on the encoded entry points (lock sets over all symbolic paths), not an exploration of interleavings; the other handlers reached from session threads (handle_announce, handle_request, handle_chunk, ...), SessionManager and main.cpp state are outside the claim')

TECHNIQUE = {'C36': 'symbolic execution of LLVM IR + SMT (z3): lock sets (mutexes held at every access to the watched members) collected over all symbolic paths of each thread role; a missing common mutex is confirmed by running the roles as real threads under ThreadSanitizer',
             'C10': 'symbolic execution of LLVM IR + SMT (z3 / cvc5 portfolio), counterexamples replayed on a native ASan/UBSan build; the secrecy witness is an existential clause decided by complete bounded exploration and confirmed by native sampling'}

def main():
    props = [json.loads(l) for l in open(os.path.join(ROOT, 'properties.jsonl'))]
    reasons = json.load(open(os.path.join(ROOT, 'not_applicable.json')))
    checks = []; na = []
    for p in props:
        pid = p['id']
        if pid in CLAIMED and os.path.exists(os.path.join(ROOT, 'props', pid + '.py')):
            text, note = CLAIMED[pid]
            checks.append({'property_id': pid, 'quick_cmd': 'python3-vt check.py %s --tier quick' % pid,
                           'thorough_cmd': 'python3-vt check.py %s --tier thorough' % pid,
                           'evidence_file': '/verif/evidence/%s.json' % pid,
                           'replay_cmd_template': 'python3-vt check.py --replay {path}', 'engine': 'S',
                           'level_claimed': {'category': 'model_checking', 'text': text, 'design_ref': 'DESIGN.md section 7 / ' + pid},
                           'level_note': note + '. Trusted base: clang-14 -O1 front end, engine/irparse.py + engine/symex.py + engine/models.py, z3; allocation failure out of scope.',
                           'technique': TECHNIQUE.get(pid, 'symbolic execution of LLVM IR + SMT (z3 / cvc5 portfolio), counterexamples replayed on a native ASan/UBSan build')})
        else:
            na.append({'property_id': pid, 'reason': reasons[pid]})
    m = {'version': 1, 'setup_cmd': 'python3-vt selftest.py',
         'hooks': {'guard': 'EPHEMERALNET_VERIF', 'enable': 'no hooks are needed: every harness #includes the real .cpp files from /repo, so nothing in /repo is guarded or instrumented',
                   'baseline_off_cmd': 'cmake --build /repo/_build -- -k 0; ctest --test-dir /repo/_build -j8 --timeout 900', 'source_commits': [], 'add_only': True},
         'engines': [{'name': 'S', 'path': 'engine/symex.py', 'serves_properties': [c['property_id'] for c in checks],
                      'kind_free_text': 'KLEE-style symbolic executor over clang-14 LLVM IR written in Python, z3 back end; encoding regenerated from /repo on every run'}],
         'checks': checks, 'not_applicable': na,
         'notes': 'Exit codes: 0 held within bounds, 1 VIOLATION (replayed natively), 3 INCONCLUSIVE (budget/encoding problem; never reported as success). known_findings.jsonl lists repaired defects (status fixed: suppress nothing).'}
    json.dump(m, open(os.path.join(ROOT, 'MANIFEST.json'), 'w'), indent=1)
    print('claimed', len(checks), 'not_applicable', len(na))
if __name__ == '__main__': main()
