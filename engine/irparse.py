#!/usr/bin/env python3
"""LLVM-14 textual IR parser (typed pointers), types and x86-64 data layout."""
import re, sys, collections

# ----------------------------------------------------------------------------- tokenizer
TOK = re.compile(r'''
    (?P<ws>\s+)
  | (?P<cstr>c"(?:[^"\\]|\\[0-9A-Fa-f]{2}|\\\\)*")
  | (?P<local>%(?:"(?:[^"\\]|\\.)*"|[-\w.$]+))
  | (?P<glob>@(?:"(?:[^"\\]|\\.)*"|[-\w.$]+))
  | (?P<meta>!(?:"[^"]*"|[-\w.]*))
  | (?P<attr>\#\d+)
  | (?P<str>"(?:[^"\\]|\\.)*")
  | (?P<hexf>0x[0-9A-Fa-f]+)
  | (?P<num>-?\d+(?:\.\d+(?:[eE][-+]?\d+)?)?)
  | (?P<id>[A-Za-z_][\w.]*)
  | (?P<dots>\.\.\.)
  | (?P<p>[()\[\]{}<>,=*:|])
''', re.X)

def tokenize(s):
    out = []; i = 0
    while i < len(s):
        m = TOK.match(s, i)
        if not m: raise SyntaxError("tok at %r" % s[i:i+40])
        i = m.end()
        k = m.lastgroup
        if k == 'ws': continue
        out.append((k, m.group()))
    return out

class P:
    def __init__(self, toks): self.t = toks; self.i = 0
    def peek(self, o=0): return self.t[self.i+o] if self.i+o < len(self.t) else ('eof','')
    def next(self): x = self.peek(); self.i += 1; return x
    def accept(self, v):
        if self.peek()[1] == v: self.i += 1; return True
        return False
    def expect(self, v):
        x = self.next()
        if x[1] != v: raise SyntaxError("expected %r got %r near %r" % (v, x, self.t[max(0,self.i-6):self.i+4]))
    def eof(self): return self.i >= len(self.t)

# ----------------------------------------------------------------------------- types
class Ty:
    __slots__ = ('k','a','b','c')
    def __init__(s, k, a=None, b=None, c=None): s.k=k; s.a=a; s.b=b; s.c=c
    def __repr__(s): return "Ty(%s,%r,%r)" % (s.k, s.a, s.b)
    def key(s):
        if s.k=='int': return 'i%d'%s.a
        if s.k=='ptr': return 'p'
        if s.k=='arr': return 'a%d_%s'%(s.a, s.b.key())
        if s.k=='struct': return ('ps' if s.b else 's')+'_'.join(f.key() for f in s.a)+'_e'
        if s.k=='named': return 'n'+re.sub(r'\W','_',s.a)
        return s.k
VOID=Ty('void');
def INT(n): return Ty('int', n)
PTR8 = Ty('ptr', INT(8))

ATTR_WORDS = set('''noundef nonnull signext zeroext inreg nocapture readonly readnone writeonly noalias nofree returned
 immarg swiftself swifterror nest dso_local local_unnamed_addr unnamed_addr internal private linkonce_odr linkonce weak weak_odr
 external available_externally hidden protected default fastcc ccc coldcc tail musttail notail common comdat constant global
 thread_local nounwind inbounds nsw nuw exact volatile atomic unordered monotonic acquire release acq_rel seq_cst
 appending extern_weak dllimport dllexport noundef allocsize'''.split())

class Mod:
    def __init__(s):
        s.named = {}      # name -> Ty or None(opaque)
        s.globals = collections.OrderedDict()
        s.funcs = collections.OrderedDict()
        s.decls = {}
    # ---- type parsing
    def ptype(s, p):
        k, v = p.next()
        if v == 'void': t = VOID
        elif k=='id' and re.fullmatch(r'i\d+', v): t = INT(int(v[1:]))
        elif v in ('float','double','half','x86_fp80','fp128'): t = Ty(v)
        elif v in ('label','metadata','token'): t = Ty(v)
        elif v == 'ptr': t = PTR8
        elif k=='local': t = Ty('named', v[1:].strip('"'))
        elif v == '[':
            n = int(p.next()[1]); p.expect('x'); e = s.ptype(p); p.expect(']'); t = Ty('arr', n, e)
        elif v == '{':
            fs = []
            if not p.accept('}'):
                while True:
                    fs.append(s.ptype(p))
                    if p.accept('}'): break
                    p.expect(',')
            t = Ty('struct', fs, False)
        elif v == '<':
            if p.peek()[1] == '{':
                p.next(); fs=[]
                if not p.accept('}'):
                    while True:
                        fs.append(s.ptype(p))
                        if p.accept('}'): break
                        p.expect(',')
                p.expect('>'); t = Ty('struct', fs, True)
            else:
                n = int(p.next()[1]); p.expect('x'); e = s.ptype(p); p.expect('>'); t = Ty('vec', n, e)
        else:
            raise SyntaxError("type? %r %r" % (k, v))
        while True:
            if p.peek()[1] == '*': p.next(); t = Ty('ptr', t)
            elif p.peek()[1] == 'addrspace': p.next(); p.expect('('); p.next(); p.expect(')')
            elif p.peek()[1] == '(':   # function type
                p.next(); args=[]; va=False
                if not p.accept(')'):
                    while True:
                        if p.peek()[0]=='dots': p.next(); va=True
                        else: args.append(s.ptype(p))
                        if p.accept(')'): break
                        p.expect(',')
                t = Ty('func', t, args, va)
            else: break
        return t
    # ---- layout
    def resolve(s, t):
        while t.k=='named':
            r = s.named.get(t.a)
            if r is None: raise KeyError("opaque type "+t.a)
            t = r
        return t
    def sizeof(s, t):
        t = s.resolve(t)
        if t.k=='int':
            n=(t.a+7)//8;
            for z in (1,2,4,8,16):
                if n<=z: return z
            return (n+7)//8*8
        if t.k=='ptr' or t.k=='func': return 8
        if t.k=='float': return 4
        if t.k=='double': return 8
        if t.k=='x86_fp80' or t.k=='fp128': return 16
        if t.k=='arr': return t.a*s.sizeof(t.b)
        if t.k=='struct': return s.layout(t)[1]
        if t.k=='vec': return t.a*s.sizeof(t.b)
        raise KeyError("sizeof "+t.k)
    def alignof(s, t):
        t = s.resolve(t)
        if t.k=='arr': return s.alignof(t.b)
        if t.k=='struct':
            if t.b: return 1
            return max([s.alignof(f) for f in t.a] or [1])
        return min(s.sizeof(t), 16)
    def layout(s, t):
        offs=[]; o=0
        for f in t.a:
            a = 1 if t.b else s.alignof(f)
            o = (o+a-1)//a*a
            offs.append(o); o += s.sizeof(f)
        a = s.alignof(t)
        o = (o+a-1)//a*a
        return offs, o

# ----------------------------------------------------------------------------- values
class V:  # operand
    __slots__=('k','a','t')
    def __init__(s,k,a,t=None): s.k=k; s.a=a; s.t=t

def skip_attrs(p):
    while True:
        k,v = p.peek()
        if v in ATTR_WORDS: p.next()
        elif v in ('align','dereferenceable','dereferenceable_or_null','sret','byval','byref','inalloca','preallocated','elementtype','allocsize'):
            p.next()
            if p.peek()[1]=='(':
                d=0
                while True:
                    x=p.next()[1]
                    if x=='(': d+=1
                    elif x==')':
                        d-=1
                        if d==0: break
            elif p.peek()[0]=='num': p.next()
        elif k=='attr': p.next()
        else: break

def param_attrs(p):
    """collect attrs, returning dict of interesting ones (byval type, sret)."""
    info={}
    while True:
        k,v = p.peek()
        if v in ATTR_WORDS: p.next()
        elif v in ('align','dereferenceable','dereferenceable_or_null','sret','byval','byref','inalloca','preallocated','elementtype'):
            p.next()
            if p.peek()[1]=='(':
                start=p.i
                d=0
                while True:
                    x=p.next()[1]
                    if x=='(': d+=1
                    elif x==')':
                        d-=1
                        if d==0: break
                info[v]=(start,p.i)
            elif p.peek()[0]=='num': p.next()
        elif k=='attr': p.next()
        else: break
    return info

CASTS=('bitcast','ptrtoint','inttoptr','trunc','zext','sext','addrspacecast','fptoui','fptosi','uitofp','sitofp','fpext','fptrunc')
BINOPS=('add','sub','mul','udiv','sdiv','urem','srem','shl','lshr','ashr','and','or','xor','fadd','fsub','fmul','fdiv','frem')

def pvalue(m, p, ty):
    k,v = p.next()
    if k=='local': return V('local', v[1:].strip('"'), ty)
    if k=='glob': return V('glob', v[1:].strip('"'), ty)
    if k=='num' or k=='hexf':
        return V('const', v, ty)
    if v in ('true','false'): return V('const', '1' if v=='true' else '0', ty)
    if v=='null': return V('null', None, ty)
    if v in ('undef','poison'): return V('undef', None, ty)
    if v=='zeroinitializer': return V('zero', None, ty)
    if k=='cstr': return V('cstr', v, ty)
    if v=='{' or (v=='<' and p.peek()[1]=='{') or v=='[':
        closing = {'{':'}','[':']','<':'}'}[v]
        if v=='<': p.next()
        elems=[]
        if not p.accept(closing):
            while True:
                et = m.ptype(p); elems.append(pvalue(m,p,et))
                if p.accept(closing): break
                p.expect(',')
        if v=='<': p.expect('>')
        return V('agg', elems, ty)
    if v=='getelementptr':
        inb = p.accept('inbounds')
        p.expect('('); bt = m.ptype(p); p.expect(',')
        pt = m.ptype(p); base = pvalue(m,p,pt); idx=[]
        while p.accept(','):
            p.accept('inrange')
            it = m.ptype(p); idx.append(pvalue(m,p,it))
        p.expect(')')
        return V('cgep', (bt, base, idx), ty)
    if v in CASTS:
        p.expect('('); st = m.ptype(p); x = pvalue(m,p,st); p.expect('to'); dt = m.ptype(p); p.expect(')')
        return V('ccast', (v, x, dt), ty)
    if v in BINOPS:
        while p.peek()[1] in ('nsw','nuw','exact'): p.next()
        p.expect('('); t1=m.ptype(p); a=pvalue(m,p,t1); p.expect(','); t2=m.ptype(p); b=pvalue(m,p,t2); p.expect(')')
        return V('cbin', (v,a,b), ty)
    if v=='blockaddress' or v=='dso_local_equivalent':
        raise SyntaxError("unsupported const "+v)
    raise SyntaxError("value? %r %r" % (k,v))

# ----------------------------------------------------------------------------- module parse
class Fn:
    def __init__(s): s.name=None; s.ret=None; s.params=[]; s.blocks=collections.OrderedDict(); s.vararg=False; s.attrs=''
class Ins:
    def __init__(s, res, op, **kw): s.res=res; s.op=op; s.__dict__.update(kw)

def strip_meta(line):
    # remove trailing metadata ", !x !y" and comments
    out=[]; inq=False; i=0
    while i < len(line):
        c=line[i]
        if c=='"': inq = not inq
        if not inq and c==';': break
        if not inq and c==',' and re.match(r',\s*!', line[i:]): break
        out.append(c); i+=1
    return ''.join(out).rstrip()

def parse_module(text):
    m = Mod()
    lines = text.split('\n')
    i=0
    # pass 1: named types
    for ln in lines:
        mm = re.match(r'^(%(?:"[^"]*"|[-\w.$]+)) = type (.*)$', ln)
        if mm:
            name = mm.group(1)[1:].strip('"')
            body = mm.group(2).strip()
            if body=='opaque': m.named[name]=None
            else: m.named[name]=('pending', body)
    for name,v in list(m.named.items()):
        if v is not None:
            m.named[name] = m.ptype(P(tokenize(v[1])))
    while i < len(lines):
        ln = lines[i]
        if ln.startswith('@'):
            parse_global(m, strip_meta(ln))
        elif ln.startswith('declare '):
            parse_decl(m, strip_meta(ln))
        elif ln.startswith('define '):
            j=i; body=[]
            hdr = strip_meta(ln)
            i+=1
            while not lines[i].startswith('}'):
                body.append(lines[i]); i+=1
            try:
                parse_func(m, hdr, body)
            except SyntaxError as e:
                # a function using something outside the encodable subset (x86_fp80, vectors, inline asm): keep it as an external
                # declaration, so that CALLING it is reported as not encodable while the rest of the module stays usable
                if not any(tok in '\n'.join(body) for tok in ('x86_fp80', 'asm ', '<2 x', '<4 x', '<8 x', '<16 x')): raise
                nm = re.search(r'@("[^"]+"|[\w.$-]+)\s*\(', hdr)
                if nm is None: raise
                name = nm.group(1).strip('"')
                m.funcs.pop(name, None)
                m.decls.setdefault(name, None)
                getattr(m, 'unencodable', None) is None and setattr(m, 'unencodable', {})
                m.unencodable[name] = str(e)[:200]
        i+=1
    return m

def parse_global(m, ln):
    ln = re.sub(r'comdat\(\$("[^"]*"|[^)]*)\)', 'comdat', ln)
    p = P(tokenize(ln))
    name = p.next()[1][1:].strip('"'); p.expect('=')
    kind=None; ext=False
    while True:
        k,v = p.peek()
        if v in ('global','constant'): kind=v; p.next(); break
        if v in ('external','extern_weak'): ext=True
        if v=='thread_local':
            p.next()
            if p.peek()[1]=='(':
                while p.next()[1]!=')': pass
            continue
        if v=='alias' or v=='ifunc': return
        p.next()
    t = m.ptype(p)
    init=None
    if not ext and not p.eof() and p.peek()[1] not in (',',):
        init = pvalue(m,p,t)
    m.globals[name] = (t, init, kind=='constant')

def parse_sig(m, p):
    skip_attrs(p)
    ret = m.ptype(p)
    name = p.next()[1][1:].strip('"')
    p.expect('(')
    params=[]; va=False
    if not p.accept(')'):
        while True:
            if p.peek()[0]=='dots': p.next(); va=True
            else:
                t = m.ptype(p)
                st=p.i; info = param_attrs(p)
                pn=None
                if p.peek()[0]=='local': pn = p.next()[1][1:].strip('"')
                byval=None
                if 'byval' in info:
                    a,b = info['byval']; byval = m.ptype(P(p.t[a+1:b-1]))
                params.append((t,pn,byval,'sret' in info))
            if p.accept(')'): break
            p.expect(',')
    return ret,name,params,va

def parse_decl(m, ln):
    p = P(tokenize(ln)); p.expect('declare')
    ret,name,params,va = parse_sig(m,p)
    m.decls[name]=(ret,[x[0] for x in params],va)

def parse_func(m, hdr, body):
    hdr = re.sub(r'comdat\(\$("[^"]*"|[^)]*)\)', 'comdat', hdr)     # comdat($group) names a different symbol than the function
    p = P(tokenize(hdr)); p.expect('define')
    f = Fn(); f.ret,f.name,f.params,f.vararg = parse_sig(m,p)
    f.attrs = hdr
    cur=None;
    # unnamed params numbering
    cnt=0
    ps=[]
    for (t,pn,bv,sr) in f.params:
        if pn is None: pn=str(cnt); cnt+=1
        ps.append((t,pn,bv,sr))
    f.params=ps
    first=True
    joined=[]
    for raw in body:
        if joined and (raw.startswith('    ') or strip_meta(raw).strip()==']'):
            joined[-1] = strip_meta(joined[-1]) + ' ' + strip_meta(raw).strip()
        else:
            joined.append(raw)
    for raw in joined:
        ln = strip_meta(raw)
        if not ln.strip(): continue
        mm = re.match(r'^((?:"[^"]*"|[-\w.$]+)):', ln)
        if mm and not ln.startswith(' '):
            cur = mm.group(1).strip('"'); f.blocks[cur]=[]; first=False; continue
        if first:
            nums=[int(x[1]) for x in f.params if x[1].isdigit()]
            cur = str(max(nums)+1) if nums else '0'; f.blocks[cur]=[]; first=False
        try:
            ins = parse_ins(m, ln.strip())
        except Exception as e:
            raise SyntaxError("in %s: %s\n  %s" % (f.name, e, ln))
        f.blocks[cur].append(ins)
    m.funcs[f.name]=f

def parse_call_tail(m, p):
    # after 'call'/'invoke' keyword
    while p.peek()[1] in ('fast','nnan','ninf','nsz','arcp','contract','afn','reassoc'): p.next()
    skip_attrs(p)
    rt = m.ptype(p)
    if rt.k=='func': fty=rt; rt=rt.a
    # callee
    k,v = p.peek()
    callee = pvalue(m,p,PTR8)
    p.expect('(')
    args=[]
    if not p.accept(')'):
        while True:
            t = m.ptype(p)
            if t.k=='metadata':
                # skip metadata operand
                while p.peek()[1] not in (',',')'): p.next()
                args.append(None)
            else:
                info = param_attrs(p)
                a = pvalue(m,p,t); args.append(a)
            if p.accept(')'): break
            p.expect(',')
    skip_attrs(p)
    return rt, callee, args

def parse_ins(m, ln):
    p = P(tokenize(ln))
    res=None
    if p.peek()[0]=='local' and p.peek(1)[1]=='=':
        res = p.next()[1][1:].strip('"'); p.next()
    op = p.next()[1]
    if op in ('tail','musttail','notail'): op = p.next()[1]
    if op in BINOPS:
        flags=[]
        while p.peek()[1] in ('nsw','nuw','exact','fast','nnan','ninf','nsz','arcp','contract','afn','reassoc'): flags.append(p.next()[1])
        t=m.ptype(p); a=pvalue(m,p,t); p.expect(','); b=pvalue(m,p,t)
        return Ins(res,'bin',bop=op,flags=flags,t=t,a=a,b=b)
    if op=='fneg':
        t=m.ptype(p); a=pvalue(m,p,t); return Ins(res,'fneg',t=t,a=a)
    if op in ('icmp','fcmp'):
        while p.peek()[1] in ('fast','nnan','ninf','nsz','arcp','contract','afn','reassoc'): p.next()
        pred=p.next()[1]; t=m.ptype(p); a=pvalue(m,p,t); p.expect(','); b=pvalue(m,p,t)
        return Ins(res,op,pred=pred,t=t,a=a,b=b)
    if op in CASTS:
        st=m.ptype(p); a=pvalue(m,p,st); p.expect('to'); dt=m.ptype(p)
        return Ins(res,'cast',cop=op,st=st,a=a,t=dt)
    if op=='alloca':
        p.accept('inalloca')
        t=m.ptype(p); n=None
        if p.accept(','):
            if p.peek()[1]=='align': pass
            else:
                nt=m.ptype(p); n=pvalue(m,p,nt)
        return Ins(res,'alloca',t=t,n=n)
    if op=='load':
        p.accept('atomic'); p.accept('volatile')
        t=m.ptype(p); p.expect(','); pt=m.ptype(p); a=pvalue(m,p,pt)
        return Ins(res,'load',t=t,a=a)
    if op=='store':
        p.accept('atomic'); p.accept('volatile')
        t=m.ptype(p); v=pvalue(m,p,t); p.expect(','); pt=m.ptype(p); a=pvalue(m,p,pt)
        return Ins(res,'store',t=t,v=v,a=a)
    if op=='getelementptr':
        p.accept('inbounds')
        bt=m.ptype(p); p.expect(','); pt=m.ptype(p); base=pvalue(m,p,pt); idx=[]
        while p.accept(','):
            it=m.ptype(p); idx.append(pvalue(m,p,it))
        return Ins(res,'gep',bt=bt,base=base,idx=idx)
    if op=='phi':
        t=m.ptype(p); inc=[]
        while True:
            p.expect('['); v=pvalue(m,p,t); p.expect(','); lbl=p.next()[1][1:].strip('"'); p.expect(']')
            inc.append((v,lbl))
            if not p.accept(','): break
        return Ins(res,'phi',t=t,inc=inc)
    if op=='select':
        ct=m.ptype(p); c=pvalue(m,p,ct); p.expect(','); t=m.ptype(p); a=pvalue(m,p,t); p.expect(','); t2=m.ptype(p); b=pvalue(m,p,t2)
        return Ins(res,'select',t=t,c=c,a=a,b=b)
    if op=='br':
        if p.peek()[1]=='label':
            p.next(); return Ins(None,'br',dst=p.next()[1][1:].strip('"'))
        t=m.ptype(p); c=pvalue(m,p,t); p.expect(','); p.expect('label'); a=p.next()[1][1:].strip('"'); p.expect(','); p.expect('label'); b=p.next()[1][1:].strip('"')
        return Ins(None,'condbr',c=c,a=a,b=b)
    if op=='switch':
        t=m.ptype(p); v=pvalue(m,p,t); p.expect(','); p.expect('label'); d=p.next()[1][1:].strip('"'); p.expect('[')
        cases=[]
        while not p.accept(']'):
            ct=m.ptype(p); cv=pvalue(m,p,ct); p.expect(','); p.expect('label'); cases.append((cv,p.next()[1][1:].strip('"')))
        return Ins(None,'switch',t=t,v=v,d=d,cases=cases)
    if op=='ret':
        t=m.ptype(p)
        if t.k=='void': return Ins(None,'ret',t=t,v=None)
        return Ins(None,'ret',t=t,v=pvalue(m,p,t))
    if op=='unreachable': return Ins(None,'unreachable')
    if op=='call':
        rt,callee,args = parse_call_tail(m,p)
        return Ins(res,'call',t=rt,callee=callee,args=args)
    if op=='invoke':
        rt,callee,args = parse_call_tail(m,p)
        p.expect('to'); p.expect('label'); n=p.next()[1][1:].strip('"'); p.expect('unwind'); p.expect('label'); u=p.next()[1][1:].strip('"')
        return Ins(res,'invoke',t=rt,callee=callee,args=args,normal=n,unwind=u)
    if op=='landingpad':
        t=m.ptype(p); cleanup=False; clauses=[]
        while not p.eof():
            k,v=p.next()
            if v=='cleanup': cleanup=True
            elif v=='catch':
                ct=m.ptype(p); clauses.append(('catch',pvalue(m,p,ct)))
            elif v=='filter':
                ct=m.ptype(p); clauses.append(('filter',pvalue(m,p,ct)))
        return Ins(res,'landingpad',t=t,cleanup=cleanup,clauses=clauses)
    if op=='resume':
        t=m.ptype(p); v=pvalue(m,p,t); return Ins(None,'resume',t=t,v=v)
    if op=='extractvalue':
        t=m.ptype(p); a=pvalue(m,p,t); idx=[]
        while p.accept(','): idx.append(int(p.next()[1]))
        return Ins(res,'extractvalue',t=t,a=a,idx=idx)
    if op=='insertvalue':
        t=m.ptype(p); a=pvalue(m,p,t); p.expect(','); et=m.ptype(p); e=pvalue(m,p,et); idx=[]
        while p.accept(','): idx.append(int(p.next()[1]))
        return Ins(res,'insertvalue',t=t,a=a,et=et,e=e,idx=idx)
    if op=='freeze':
        t=m.ptype(p); a=pvalue(m,p,t); return Ins(res,'cast',cop='bitcast',st=t,a=a,t=t)
    if op in ('atomicrmw','cmpxchg','fence'):
        if op=='fence': return Ins(None,'nop')
        if op=='atomicrmw':
            p.accept('volatile'); rop=p.next()[1]; pt=m.ptype(p); a=pvalue(m,p,pt); p.expect(','); t=m.ptype(p); v=pvalue(m,p,t)
            return Ins(res,'atomicrmw',rop=rop,t=t,a=a,v=v)
        p.accept('weak'); p.accept('volatile'); pt=m.ptype(p); a=pvalue(m,p,pt); p.expect(','); t=m.ptype(p); c=pvalue(m,p,t); p.expect(','); t2=m.ptype(p); n=pvalue(m,p,t2)
        return Ins(res,'cmpxchg',t=t,a=a,c=c,n=n)
    raise SyntaxError("unsupported op "+op)

# ----------------------------------------------------------------------------- C emission
def cid(name, pre='f_'):
    s = re.sub(r'[^A-Za-z0-9_]', lambda mo: '_%02x' % ord(mo.group()), name)
    return s if re.match(r'[A-Za-z_]', s) and not pre else pre+s

STD_BASES = {  # typeinfo name -> base typeinfo name
 '_ZTISt16invalid_argument':'_ZTISt11logic_error','_ZTISt12length_error':'_ZTISt11logic_error','_ZTISt12out_of_range':'_ZTISt11logic_error',
 '_ZTISt12domain_error':'_ZTISt11logic_error','_ZTISt11logic_error':'_ZTISt9exception','_ZTISt13runtime_error':'_ZTISt9exception',
 '_ZTISt14overflow_error':'_ZTISt13runtime_error','_ZTISt11range_error':'_ZTISt13runtime_error','_ZTISt9bad_alloc':'_ZTISt9exception',
 '_ZTISt20bad_array_new_length':'_ZTISt9bad_alloc','_ZTISt8bad_cast':'_ZTISt9exception','_ZTISt18bad_variant_access':'_ZTISt9exception',
 '_ZTISt12system_error':'_ZTISt13runtime_error','_ZTINSt8ios_base7failureB5cxx11E':'_ZTISt12system_error','_ZTISt17bad_function_call':'_ZTISt9exception',
 '_ZTISt19bad_optional_access':'_ZTISt9exception','_ZTINSt10filesystem7__cxx1116filesystem_errorE':'_ZTISt12system_error',
}
