"""Environment models for Engine S (DESIGN.md 2.4): allocation, C++ exception ABI,
libc byte functions, LLVM intrinsics, std exception objects, and the harness API."""
import re, math, struct
import z3
import symex as SX
from symex import to_bv, to_bool, norm, sgn, as_concrete, PathEnd, EngineError, MergeAbort, M64

PSEUDO_FUNCS = ['verif.exc.dtor', 'verif.exc.dtor0', 'verif.exc.what']
SYNTH_GLOBALS = {}

STD_EXC = ['St9exception', 'St11logic_error', 'St16invalid_argument', 'St12out_of_range', 'St12length_error', 'St12domain_error',
           'St13runtime_error', 'St11range_error', 'St14overflow_error', 'St15underflow_error', 'St9bad_alloc',
           'St20bad_array_new_length', 'St17bad_function_call', 'St18bad_variant_access', 'St19bad_optional_access', 'St8bad_cast',
           'St12system_error']

def synth_vtable(E, name, buf):
    # Itanium layout: [offset-to-top][typeinfo][D1][D0][what]...
    ti = E.gaddr.get('_ZTI' + name[4:], 0)
    buf[8:16] = ti.to_bytes(8, 'little')
    buf[16:24] = E.gaddr['verif.exc.dtor'].to_bytes(8, 'little')
    buf[24:32] = E.gaddr['verif.exc.dtor0'].to_bytes(8, 'little')
    buf[32:40] = E.gaddr['verif.exc.what'].to_bytes(8, 'little')

# --------------------------------------------------------------------------- helpers
def cint(E, v, why):
    return v if isinstance(v, int) else E.concretize(v, why=why)

def new_obj(E, size, name):
    size = cint(E, size, 'allocation size')
    o = E.alloc(size, 'heap', name)
    return o.base

def make_std_exception(E, tiname, msgptr):
    vt = E.gaddr.get('_ZTV' + tiname[4:])
    o = E.alloc(32, 'heap', 'exception:' + tiname)
    if vt is not None: E.store(o.base, 8, vt + 16)
    E.store(o.base + 8, 8, msgptr)
    ti = E.gaddr.get(tiname)
    if ti is None: raise EngineError('typeinfo not in module: ' + tiname)
    return o.base, ti

def thrower(tiname):
    def f(E, fr, args):
        p, ti = make_std_exception(E, tiname, args[0] if args and isinstance(args[0], int) else 0)
        E.throw(p, ti)
    return f

def copy_std_string_chars(E, sptr):
    """std::string object -> new heap C string with its characters"""
    data = E.load(sptr, 8); ln = E.load(sptr + 8, 8)
    if not isinstance(data, int) or not isinstance(ln, int): return 0
    o = E.alloc(ln + 1, 'heap', 'excmsg')
    if ln: E.memcpy(o.base, data, ln)
    return o.base

# --------------------------------------------------------------------------- harness API
def m_nondet(w):
    def f(E, fr, args):
        name = E.read_cstr(args[0]) if args and isinstance(args[0], int) and args[0] else 'v'
        v = E.fresh(name, w)
        if w == 1: return v == z3.BitVecVal(1, 1)
        return v
    return f

def m_nondet_bytes(E, fr, args):
    p, n = args[0], cint(E, args[1], 'nondet_bytes length')
    name = E.read_cstr(args[2]) if len(args) > 2 and args[2] else 'b'
    for i in range(n):
        E.store(p + i, 1, E.fresh('%s[%d]' % (name, i), 8))

def m_assume(E, fr, args):
    c = args[0]
    if isinstance(c, int):
        if not (c & 1): raise PathEnd('infeasible')
        return
    E.add_pc(to_bool(c))
    if not E.check(): raise PathEnd('infeasible')

def m_assert(E, fr, args):
    c = args[0]
    E.stats['asserts'] += 1
    msg = E.read_cstr(args[1]) if len(args) > 1 and isinstance(args[1], int) and args[1] else ''
    if isinstance(c, int):
        if not (c & 1):
            E.violation('assert', msg)
            raise PathEnd('error', 'assertion failed: ' + msg)
        return
    c = to_bool(c)
    bad = z3.Not(c)
    if E.check(bad):
        E.violation('assert', msg, bad)
        E.add_pc(c)
        if not E.check(): raise PathEnd('error', 'assertion always fails: ' + msg)
    else:
        E.add_pc(c)

def m_observe(E, fr, args):
    E.observed.append((E.read_cstr(args[0]), args[1] if not z3.is_bool(args[1]) else to_bv(args[1], 64)) if not isinstance(args[1], int) else (E.read_cstr(args[0]), args[1]))

def m_reach(E, fr, args):
    tag = E.read_cstr(args[0])
    if E.merge_depth: raise MergeAbort('reach in merged call')
    if tag not in E.reached:
        if E.check_uncached():   # not cached: whether this query runs depends on earlier paths
            E.reached[tag] = E.model_values(E.model())
    E.reach_count[tag] = E.reach_count.get(tag, 0) + 1

def m_note(E, fr, args):
    E.notes.append(E.read_cstr(args[0]))

def m_concretize(E, fr, args):
    cap = cint(E, args[1], 'cap') if len(args) > 1 else None
    return E.concretize(args[0], cap=cap or None, why='verif_concretize')

def m_is_symbolic(E, fr, args):
    return 0 if isinstance(args[0], int) else 1

def m_known(E, fr, args):
    fid = E.read_cstr(args[0]); mode = E.kf_mode.get(fid)
    c = args[1]
    E.kf_seen.add(fid)
    if mode is None: return 0
    if mode == 'exclude':
        if isinstance(c, int):
            if c & 1: raise PathEnd('infeasible')
        else:
            E.add_pc(z3.Not(to_bool(c)))
            if not E.check(): raise PathEnd('infeasible')
        return 0
    if isinstance(c, int):
        if not (c & 1): raise PathEnd('infeasible')
    else:
        E.add_pc(to_bool(c))
        if not E.check(): raise PathEnd('infeasible')
    return 1

def m_uf(E, fr, args):
    """verif_uf(name, in, in_len, out, out_len): out bytes := UF_name(in bytes) - an uninterpreted function of the input bytes"""
    name = E.read_cstr(args[0]); n_in = cint(E, args[2], 'uf in_len'); n_out = cint(E, args[4], 'uf out_len')
    key = (name, n_in, n_out)
    f = E.ufs.get(key)
    if f is None:
        f = z3.Function('uf_%s_%d_%d' % (name, n_in, n_out), z3.BitVecSort(8 * n_in), z3.BitVecSort(8 * n_out))
        E.ufs[key] = f
    bs = E.load_bytes(cint(E, args[1], 'uf in'), n_in)
    arg = z3.Concat(*[to_bv(b, 8) for b in bs]) if n_in > 1 else to_bv(bs[0], 8)
    r = f(z3.simplify(arg))
    out = cint(E, args[3], 'uf out')
    for i in range(n_out):
        E.store(out + i, 1, z3.Extract(8 * (n_out - i) - 1, 8 * (n_out - i - 1), r))
    return None

def m_depth_limit(E, fr, args):
    """verif_depth_limit(n): from here on, more than n additional call frames is a violation (recursion driven by input nesting)"""
    n = cint(E, args[0], 'depth limit')
    E.depth_limit = (len(E.frames) + n) if n else 0
    return None
def m_errno_location(E, fr, args):
    if getattr(E, '_errno_obj', None) is None or not E._errno_obj.alive: E._errno_obj = E.alloc(4, 'heap', 'errno')
    return E._errno_obj.base
def m_strtod(E, fr, args):
    """strtod on a text the caller has already scanned as a number: consumes the whole text, value irrelevant to the caller (0.0)"""
    p = cint(E, args[0], 'strtod ptr'); n = 0
    while True:
        b = E.load(p + n, 1)
        if isinstance(b, int) and b == 0: break
        n += 1
        if n > 4096: raise EngineError('strtod: unterminated text')
    if args[1]: E.store(cint(E, args[1], 'endptr'), 8, p + n)
    return 0.0

def m_fail(E, fr, args):
    raise PathEnd('error', 'verif_abort')

# --------------------------------------------------------------------------- memory
def m_new(E, fr, args):
    base = new_obj(E, args[0], 'new@' + fr.fn.name[:48])
    if getattr(E, 'watch', None):
        # lock discipline: a heap object allocated by a member function whose `this` lies inside a watched region (container nodes, bucket
        # arrays, buffers of values stored in such nodes) belongs to that region
        size = cint(E, args[0], 'allocation size'); owner = None
        for f in E.frames:
            ps = getattr(f.fn, 'pslots', None)
            if not ps: continue
            try: v = f.regs[ps[0]]
            except Exception: continue
            if isinstance(v, int):
                for lo, hi, name in E.watch:
                    if lo <= v < hi: owner = name; break
            if owner: break
        if owner: E.watch.append((base, base + max(size, 1), owner))
    return base
def m_calloc(E, fr, args):
    return new_obj(E, cint(E, args[0], 'calloc') * cint(E, args[1], 'calloc'), 'calloc')
def m_delete(E, fr, args):
    E.free(cint(E, args[0], 'delete'))
def m_realloc(E, fr, args):
    p = args[0]; n = cint(E, args[1], 'realloc')
    q = new_obj(E, n, 'realloc')
    if p:
        o = E.find(p)
        E.memcpy(q, p, min(n, o.size)); E.free(p)
    return q

def m_memcpy(E, fr, args):
    n = cint(E, args[2], 'memcpy length')
    d = cint(E, args[0], 'memcpy dst'); s_ = cint(E, args[1], 'memcpy src')
    if n: E.memcpy(d, s_, n)
    return d
def m_memset(E, fr, args):
    n = cint(E, args[2], 'memset length'); d = cint(E, args[0], 'memset dst')
    b = args[1]
    if not isinstance(b, int) and b.size() != 8: b = z3.Extract(7, 0, b)
    if n: E.memset(d, b, n)
    return d

def m_memcmp(E, fr, args):
    n = cint(E, args[2], 'memcmp length')
    if n == 0: return 0
    a = E.load_bytes(cint(E, args[0], 'memcmp ptr'), n); b = E.load_bytes(cint(E, args[1], 'memcmp ptr'), n)
    res = 0
    for x, y in zip(reversed(a), reversed(b)):
        if isinstance(x, int) and isinstance(y, int):
            if x != y: res = (0xffffffff if x < y else 1)
        else:
            xx = to_bv(x, 8); yy = to_bv(y, 8)
            res = z3.If(xx == yy, to_bv(res, 32), z3.If(z3.ULT(xx, yy), z3.BitVecVal(0xffffffff, 32), z3.BitVecVal(1, 32)))
    return norm(res)

def m_memchr(E, fr, args):
    p = cint(E, args[0], 'memchr ptr'); n = cint(E, args[2], 'memchr length')
    c = args[1]
    c = (c & 255) if isinstance(c, int) else z3.Extract(7, 0, c)
    if n == 0: return 0
    bs = E.load_bytes(p, n)
    for i, b in enumerate(bs):
        if isinstance(b, int) and isinstance(c, int):
            if b == c: return p + i
        elif E.branch(to_bv(b, 8) == to_bv(c, 8)): return p + i
    return 0

def m_strncmp(bounded):
    def f(E, fr, args):
        a = cint(E, args[0], 'strcmp ptr'); b = cint(E, args[1], 'strcmp ptr')
        n = cint(E, args[2], 'strncmp length') if bounded else (1 << 20)
        for i in range(n):
            x = E.load(a + i, 1); y = E.load(b + i, 1)
            if isinstance(x, int) and isinstance(y, int):
                if x != y: return 0xffffffff if x < y else 1
                if x == 0: return 0
                continue
            xx = to_bv(x, 8); yy = to_bv(y, 8)
            if E.branch(xx != yy):
                return 0xffffffff if E.branch(z3.ULT(xx, yy)) else 1
            if E.branch(xx == z3.BitVecVal(0, 8)): return 0
        return 0
    return f

def m_strlen(E, fr, args):
    p = cint(E, args[0], 'strlen ptr'); i = 0
    while True:
        b = E.load(p + i, 1)
        if isinstance(b, int):
            if b == 0: return i
        elif E.branch(b == z3.BitVecVal(0, 8)): return i
        i += 1
        if i > (1 << 20): raise PathEnd('budget', 'strlen runaway')

def ctype_model(pred):
    def f(E, fr, args):
        c = args[0]
        if isinstance(c, int):
            c = sgn(c, 32)
            return 1 if (0 <= c < 256 and pred(c)) else 0
        # symbolic: table by ranges
        conds = [c == z3.BitVecVal(i, 32) for i in range(256) if pred(i)]
        return norm(z3.If(z3.Or(*conds), z3.BitVecVal(1, 32), z3.BitVecVal(0, 32)))
    return f

def range_pred_model(ranges):
    """ranges: list of (lo,hi) inclusive"""
    def f(E, fr, args):
        c = args[0]
        if isinstance(c, int):
            c = sgn(c, 32)
            return 1 if any(lo <= c <= hi for lo, hi in ranges) else 0
        conds = [z3.And(z3.UGE(c, z3.BitVecVal(lo, 32)), z3.ULE(c, z3.BitVecVal(hi, 32))) for lo, hi in ranges]
        return norm(z3.If(z3.Or(*conds), z3.BitVecVal(1, 32), z3.BitVecVal(0, 32)))
    return f

def m_tolower(E, fr, args):
    c = args[0]
    if isinstance(c, int): return c + 32 if 65 <= c <= 90 else c
    return norm(z3.If(z3.And(z3.UGE(c, z3.BitVecVal(65, 32)), z3.ULE(c, z3.BitVecVal(90, 32))), c + 32, c))
def m_toupper(E, fr, args):
    c = args[0]
    if isinstance(c, int): return c - 32 if 97 <= c <= 122 else c
    return norm(z3.If(z3.And(z3.UGE(c, z3.BitVecVal(97, 32)), z3.ULE(c, z3.BitVecVal(122, 32))), c - 32, c))

# --------------------------------------------------------------------------- exceptions ABI
def m_alloc_exc(E, fr, args):
    return new_obj(E, cint(E, args[0], 'exception size') + 0, 'exception')
def m_throw(E, fr, args):
    E.throw(args[0], args[1])
def m_begin_catch(E, fr, args):
    E.caught.append(E.exc)
    return args[0]
def m_end_catch(E, fr, args):
    if E.caught: E.caught.pop()
def m_rethrow(E, fr, args):
    if not E.caught:
        E.violation('terminate', 'rethrow with no active exception'); raise PathEnd('error', 'terminate')
    E.exc = E.caught[-1]
    raise SX.Thrown()
def m_typeid_for(E, fr, args):
    return args[0] & 0x7fffffff
def m_terminate(E, fr, args):
    E.violation('terminate', 'std::terminate called from ' + fr.fn.name)
    raise PathEnd('error', 'terminate')
def m_abort(E, fr, args):
    E.violation('abort', 'abort()/trap reached in ' + fr.fn.name)
    raise PathEnd('error', 'abort')
def m_guard_acquire(E, fr, args):
    b = E.load(args[0], 1)
    return 1 if b == 0 else 0
def m_guard_release(E, fr, args):
    E.store(args[0], 1, 1)
def m_nop(E, fr, args): return None
def m_zero(E, fr, args): return 0
def m_ret0(E, fr, args): return args[0]

def m_exc_ctor_cstr(tiname):
    def f(E, fr, args):
        vt = E.gaddr.get('_ZTV' + tiname[4:])
        if vt is not None: E.store(args[0], 8, vt + 16)
        E.store(args[0] + 8, 8, args[1])
    return f
def m_exc_ctor_str(tiname):
    def f(E, fr, args):
        vt = E.gaddr.get('_ZTV' + tiname[4:])
        if vt is not None: E.store(args[0], 8, vt + 16)
        E.store(args[0] + 8, 8, copy_std_string_chars(E, args[1]))
    return f
def m_exc_what(E, fr, args):
    return E.load(args[0] + 8, 8)

# --------------------------------------------------------------------------- intrinsics
def bits_fn(kind):
    def f(E, fr, args, w):
        x = args[0]
        if isinstance(x, int):
            if kind == 'ctlz': return w - x.bit_length()
            if kind == 'cttz': return w if x == 0 else (x & -x).bit_length() - 1
            return bin(x).count('1')
        if kind == 'ctpop':
            acc = z3.BitVecVal(0, w)
            for i in range(w): acc = acc + z3.ZeroExt(w - 1, z3.Extract(i, i, x))
            return norm(acc)
        acc = z3.BitVecVal(w, w)
        rng = range(w) if kind == 'ctlz' else range(w - 1, -1, -1)
        for i in rng:
            val = (w - 1 - i) if kind == 'ctlz' else i
            acc = z3.If(z3.Extract(i, i, x) == z3.BitVecVal(1, 1), z3.BitVecVal(val, w), acc)
        return norm(acc)
    return f

def minmax(kind):
    def f(E, fr, args, w):
        a, b = args[0], args[1]
        if isinstance(a, int) and isinstance(b, int):
            if kind[0] == 's':
                r = max(sgn(a, w), sgn(b, w)) if kind == 'smax' else min(sgn(a, w), sgn(b, w))
                return r & ((1 << w) - 1)
            return max(a, b) if kind == 'umax' else min(a, b)
        a = to_bv(a, w); b = to_bv(b, w)
        c = {'smax': a > b, 'smin': a < b, 'umax': z3.UGT(a, b), 'umin': z3.ULT(a, b)}[kind]
        return norm(z3.If(c, a, b))
    return f

def with_overflow(kind):
    def f(E, fr, args, w):
        a, b = args[0], args[1]
        mask = (1 << w) - 1
        if isinstance(a, int) and isinstance(b, int):
            if kind[0] == 's':
                x, y = sgn(a, w), sgn(b, w)
                t = x + y if kind == 'sadd' else x - y if kind == 'ssub' else x * y
                return [t & mask, 0 if -(1 << (w - 1)) <= t < (1 << (w - 1)) else 1]
            t = a + b if kind == 'uadd' else a - b if kind == 'usub' else a * b
            return [t & mask, 0 if 0 <= t <= mask else 1]
        a = to_bv(a, w); b = to_bv(b, w)
        if kind == 'sadd': r = a + b; ok = z3.And(z3.BVAddNoOverflow(a, b, True), z3.BVAddNoUnderflow(a, b))
        elif kind == 'uadd': r = a + b; ok = z3.BVAddNoOverflow(a, b, False)
        elif kind == 'ssub': r = a - b; ok = z3.And(z3.BVSubNoOverflow(a, b), z3.BVSubNoUnderflow(a, b, True))
        elif kind == 'usub': r = a - b; ok = z3.BVSubNoUnderflow(a, b, False)
        elif kind == 'smul': r = a * b; ok = z3.And(z3.BVMulNoOverflow(a, b, True), z3.BVMulNoUnderflow(a, b))
        else: r = a * b; ok = z3.BVMulNoOverflow(a, b, False)
        return [norm(r), norm(z3.Not(ok))]
    return f

def fsh(left):
    def f(E, fr, args, w):
        a, b, c = args
        if all(isinstance(x, int) for x in args):
            c %= w
            cat = (a << w) | b
            return ((cat << c) >> w) & ((1 << w) - 1) if left else (cat >> c) & ((1 << w) - 1)
        a = to_bv(a, w); b = to_bv(b, w); c = to_bv(c, w)
        cat = z3.Concat(a, b)
        cc = z3.ZeroExt(w, z3.URem(c, z3.BitVecVal(w, w)))
        if left: return norm(z3.Extract(2 * w - 1, w, cat << cc))
        return norm(z3.Extract(w - 1, 0, z3.LShR(cat, cc)))
    return f

def m_bswap(E, fr, args, w):
    x = args[0]; n = w // 8
    if isinstance(x, int): return int.from_bytes(x.to_bytes(n, 'little'), 'big')
    return norm(z3.Concat(*[z3.Extract(8 * i + 7, 8 * i, x) for i in range(n)]))

def m_abs(E, fr, args, w):
    x = args[0]
    if isinstance(x, int): return abs(sgn(x, w)) & ((1 << w) - 1)
    return norm(z3.If(x < 0, -x, x))

def sat_arith(kind):
    def f(E, fr, args, w):
        a, b = args[0], args[1]
        if isinstance(a, int) and isinstance(b, int):
            if kind == 'uadd': return min(a + b, (1 << w) - 1)
            if kind == 'usub': return max(a - b, 0)
        raise EngineError('saturating arithmetic on symbolic values')
    return f

INTRIN_W = {'ctlz': bits_fn('ctlz'), 'cttz': bits_fn('cttz'), 'ctpop': bits_fn('ctpop'),
            'smax': minmax('smax'), 'smin': minmax('smin'), 'umax': minmax('umax'), 'umin': minmax('umin'),
            'sadd.with.overflow': with_overflow('sadd'), 'uadd.with.overflow': with_overflow('uadd'),
            'ssub.with.overflow': with_overflow('ssub'), 'usub.with.overflow': with_overflow('usub'),
            'smul.with.overflow': with_overflow('smul'), 'umul.with.overflow': with_overflow('umul'),
            'fshl': fsh(True), 'fshr': fsh(False), 'bswap': m_bswap, 'abs': m_abs,
            'uadd.sat': sat_arith('uadd'), 'usub.sat': sat_arith('usub')}

FLOAT1 = {'fabs': abs, 'floor': math.floor, 'ceil': math.ceil, 'sqrt': lambda x: math.sqrt(x) if x >= 0 else float('nan'),
          'trunc': math.trunc, 'round': round, 'rint': round, 'nearbyint': round, 'exp': math.exp, 'exp2': lambda x: 2.0 ** x,
          'log': lambda x: math.log(x) if x > 0 else float('-inf'), 'log2': lambda x: math.log2(x) if x > 0 else float('-inf'),
          'log10': lambda x: math.log10(x) if x > 0 else float('-inf')}

def intrinsic(name):
    mm = re.match(r'^llvm\.([a-z0-9.]+?)\.(i(\d+)|f64|f32)(\..*)?$', name)
    if not mm: return None
    op = mm.group(1)
    if mm.group(3):
        w = int(mm.group(3))
        f = INTRIN_W.get(op)
        if f is None: return None
        return lambda E, fr, args: f(E, fr, args, w)
    if op in FLOAT1:
        g = FLOAT1[op]
        def ff(E, fr, args):
            x = args[0]
            if not isinstance(x, float): raise EngineError('symbolic float intrinsic')
            if x != x or x in (float('inf'), float('-inf')): return x
            return float(g(x))
        return ff
    if op in ('fmuladd', 'fma'): return lambda E, fr, args: args[0] * args[1] + args[2]
    if op == 'copysign': return lambda E, fr, args: math.copysign(args[0], args[1])
    if op in ('minnum', 'maxnum'): return lambda E, fr, args: (min if op == 'minnum' else max)(args[0], args[1])
    if op == 'pow': return lambda E, fr, args: math.pow(args[0], args[1])
    return None

# ---- std::ostringstream used only for diagnostics text: a sink. operator<< returns its stream, str() returns an empty string.
# (Only installed for jobs that ask for it - E.stream_sink - because formatting is the subject of other properties.)
def m_sink_ret_stream(E, fr, args): return args[0]
def m_sink_str(E, fr, args):
    sret = cint(E, args[0], 'sret')
    E.store(sret, 8, sret + 16); E.store(sret + 8, 8, 0); E.store(sret + 16, 1, 0)
    return None
def stream_sink_model(name):
    if 'basic_ostringstream' in name and re.search(r'(C[12]|D[012])E', name): return m_nop
    if 'basic_ostringstream' in name and name.endswith('3strEv'): return m_sink_str
    if name.startswith('_ZNSolsE') or name.startswith('_ZNSo9_M_insert') or name.startswith('_ZSt16__ostream_insert') or name.startswith('_ZStlsI'): return m_sink_ret_stream
    if name.startswith('_ZNSt8ios_base') or name.startswith('_ZNSt9basic_iosIcSt11char_traitsIcEE'): return m_nop
    return None

def pattern_model(name):
    if name.startswith('llvm.memcpy.') or name.startswith('llvm.memmove.'): return m_memcpy
    if name.startswith('llvm.memset.'): return m_memset
    if name.startswith('llvm.expect.'): return m_ret0
    if name.startswith('llvm.is.constant.'): return m_zero
    if name.startswith('llvm.objectsize.'): return lambda E, fr, args: M64
    if name.startswith('llvm.load.relative.'):
        # relative lookup table (clang's rel-lookup-table-converter): result = base + sext(i32 at base + offset)
        def load_relative(E, fr, args):
            base = cint(E, args[0], 'relative table base'); off = cint(E, args[1], 'relative table offset')
            if off >= 1 << 63: off -= 1 << 64
            d = cint(E, E.load(base + off, 4), 'relative table entry')
            if d >= 1 << 31: d -= 1 << 32
            return (base + d) & M64
        return load_relative
    if name.startswith('llvm.'):
        return intrinsic(name)
    return None

class _Pat:
    def search(self, name): return pattern_model(name) is not None


# ---- std::filesystem::path::_List (component list): only the empty / single-filename representation (tagged null pointer)
def _fs_tag(E, v):
    v = cint(E, v, 'path::_List impl pointer')
    if v & ~3: raise EngineError('std::filesystem::path with a component list is not modelled')
    return v
def m_fs_list_ctor(E, fr, args):
    E.store(args[0], 8, 3); return None
def m_fs_list_copy(E, fr, args):
    E.store(args[0], 8, _fs_tag(E, E.load(args[1], 8))); return None
def m_fs_list_assign(E, fr, args):
    E.store(args[0], 8, _fs_tag(E, E.load(args[1], 8))); return args[0]
def m_fs_impl_delete(E, fr, args):
    _fs_tag(E, args[1]); return None
def m_fs_split_cmpts(E, fr, args):
    ln = cint(E, E.load(args[0] + 8, 8), 'path length')
    if ln != 0: raise EngineError('std::filesystem::path with non-empty text is not modelled')
    E.store(args[0] + 32, 8, 3); return None
def m_fs_list_clear(E, fr, args):
    _fs_tag(E, E.load(args[0], 8)); return None

def install(E):
    M = E.models
    for w, n in ((8, 'u8'), (16, 'u16'), (32, 'u32'), (64, 'u64'), (1, 'bool')):
        M['nondet_' + n] = m_nondet(w)
    M['nondet_bytes'] = m_nondet_bytes
    M['verif_assume'] = m_assume; M['verif_assert'] = m_assert; M['verif_observe'] = m_observe
    M['verif_reach'] = m_reach; M['verif_note'] = m_note; M['verif_concretize'] = m_concretize
    M['verif_depth_limit'] = m_depth_limit; M['__errno_location'] = m_errno_location; M['strtod'] = m_strtod; M['verif_uf'] = m_uf; M['verif_is_symbolic'] = m_is_symbolic; M['verif_abort'] = m_fail; M['verif_known'] = m_known
    E.kf_mode = {}; E.kf_seen = set()
    E.reach_count = {}
    for n in ('_Znwm', '_Znam', '_ZnwmRKSt9nothrow_t', '_ZnamRKSt9nothrow_t', 'malloc', '_ZnwmSt11align_val_t', '_ZnamSt11align_val_t'): M[n] = m_new
    for n in ('_ZdlPv', '_ZdaPv', '_ZdlPvm', '_ZdaPvm', 'free', '_ZdlPvSt11align_val_t', '_ZdlPvmSt11align_val_t', '_ZdaPvSt11align_val_t'): M[n] = m_delete
    M['calloc'] = m_calloc; M['realloc'] = m_realloc
    M['memcpy'] = m_memcpy; M['memmove'] = m_memcpy; M['memset'] = m_memset
    M['memcmp'] = m_memcmp; M['bcmp'] = m_memcmp; M['memchr'] = m_memchr; M['strlen'] = m_strlen; M['strncmp'] = m_strncmp(True); M['strcmp'] = m_strncmp(False)
    M['iscntrl'] = range_pred_model([(0, 31), (127, 127)])
    M['isdigit'] = range_pred_model([(48, 57)])
    M['isspace'] = range_pred_model([(9, 13), (32, 32)])
    M['isalpha'] = range_pred_model([(65, 90), (97, 122)])
    M['isalnum'] = range_pred_model([(48, 57), (65, 90), (97, 122)])
    M['isxdigit'] = range_pred_model([(48, 57), (65, 70), (97, 102)])
    M['isupper'] = range_pred_model([(65, 90)]); M['islower'] = range_pred_model([(97, 122)])
    M['isprint'] = range_pred_model([(32, 126)]); M['isgraph'] = range_pred_model([(33, 126)])
    M['ispunct'] = range_pred_model([(33, 47), (58, 64), (91, 96), (123, 126)])
    M['tolower'] = m_tolower; M['toupper'] = m_toupper
    M['__cxa_allocate_exception'] = m_alloc_exc; M['__cxa_throw'] = m_throw; M['__cxa_begin_catch'] = m_begin_catch
    M['__cxa_end_catch'] = m_end_catch; M['__cxa_rethrow'] = m_rethrow; M['__cxa_free_exception'] = m_delete
    M['llvm.eh.typeid.for'] = m_typeid_for
    M['_ZSt9terminatev'] = m_terminate; M['abort'] = m_abort; M['llvm.trap'] = m_abort; M['__assert_fail'] = m_abort
    M['_ZSt21__glibcxx_assert_failPKciS0_S0_'] = m_abort
    M['__cxa_pure_virtual'] = m_abort
    M['__cxa_guard_acquire'] = m_guard_acquire; M['__cxa_guard_release'] = m_guard_release; M['__cxa_guard_abort'] = m_nop
    M['__cxa_atexit'] = m_zero
    M['_ZNSt8ios_base4InitC1Ev'] = m_nop; M['_ZNSt8ios_base4InitD1Ev'] = m_nop
    M['pthread_self'] = lambda E, fr, args: 1
    # std::system_category() / std::generic_category(): references to two distinct immortal objects (only their identity is used)
    def category_model(tag):
        def f(E, fr, args):
            key = '_category_' + tag
            if not hasattr(E, key) or getattr(E, key) is None: setattr(E, key, new_obj(E, 16, 'error_category:' + tag))
            return getattr(E, key)
        return f
    M['_ZNSt3_V215system_categoryEv'] = category_model('system'); M['_ZNSt3_V216generic_categoryEv'] = category_model('generic')
    # mutexes: single-threaded execution, so locking always succeeds; which mutexes are held is tracked for the lock-discipline log
    def m_mutex_lock(E, fr, args):
        E.held.append(cint(E, args[0], 'mutex')); return 0
    def m_mutex_unlock(E, fr, args):
        a = cint(E, args[0], 'mutex')
        if a in E.held: E.held.remove(a)
        return 0
    M['pthread_mutex_lock'] = m_mutex_lock; M['pthread_mutex_unlock'] = m_mutex_unlock; M['pthread_mutex_trylock'] = m_mutex_lock
    def m_watch(E, fr, args):
        lo = cint(E, args[0], 'watch'); E.watch.append((lo, lo + cint(E, args[1], 'watch size'), E.read_cstr(args[2]))); return None
    def m_lock_name(E, fr, args):
        E.lock_names[cint(E, args[0], 'mutex')] = E.read_cstr(args[1]); return None
    def m_context(E, fr, args):
        t = E.read_cstr(args[0]); E.ctx = t if t else None; return None
    M['verif_watch'] = m_watch; M['verif_lock_name'] = m_lock_name; M['verif_context'] = m_context
    M['pthread_mutex_init'] = m_zero; M['pthread_mutex_destroy'] = m_zero
    M['llvm.stacksave'] = m_zero; M['llvm.stackrestore'] = m_nop
    M['_ZNSaIcEC1Ev'] = m_nop; M['_ZNSaIcEC2Ev'] = m_nop; M['_ZNSaIcED1Ev'] = m_nop; M['_ZNSaIcED2Ev'] = m_nop
    M['_ZNSaIcEC1ERKS_'] = m_nop; M['_ZNSaIcEC2ERKS_'] = m_nop
    M['_ZNSt9exceptionD2Ev'] = m_nop; M['_ZNSt9exceptionD1Ev'] = m_nop
    M['verif.exc.dtor'] = m_nop; M['verif.exc.dtor0'] = m_nop; M['verif.exc.what'] = m_exc_what
    for short, full in (('logic_error', '_ZTISt11logic_error'), ('invalid_argument', '_ZTISt16invalid_argument'),
                        ('out_of_range', '_ZTISt12out_of_range'), ('length_error', '_ZTISt12length_error'),
                        ('domain_error', '_ZTISt12domain_error'), ('runtime_error', '_ZTISt13runtime_error'),
                        ('range_error', '_ZTISt11range_error'), ('overflow_error', '_ZTISt14overflow_error'),
                        ('underflow_error', '_ZTISt15underflow_error')):
        mang = 'St%d%s' % (len(short), short)
        M['_ZN%sC1EPKc' % mang] = m_exc_ctor_cstr(full); M['_ZN%sC2EPKc' % mang] = m_exc_ctor_cstr(full)
        M['_ZN%sC1ERKNSt7__cxx1112basic_stringIcSt11char_traitsIcESaIcEEE' % mang] = m_exc_ctor_str(full)
        M['_ZN%sC2ERKNSt7__cxx1112basic_stringIcSt11char_traitsIcESaIcEEE' % mang] = m_exc_ctor_str(full)
        M['_ZN%sD1Ev' % mang] = m_nop; M['_ZN%sD2Ev' % mang] = m_nop; M['_ZN%sD0Ev' % mang] = m_nop
        M['_ZNK%s4whatEv' % mang] = m_exc_what
        M['_ZSt%d__throw_%sPKc' % (len('__throw_' + short), short)] = thrower(full)
    M['_ZSt24__throw_out_of_range_fmtPKcz'] = thrower('_ZTISt12out_of_range')
    M['_ZSt17__throw_bad_allocv'] = thrower('_ZTISt9bad_alloc')
    M['_ZSt28__throw_bad_array_new_lengthv'] = thrower('_ZTISt20bad_array_new_length')
    M['_ZSt25__throw_bad_function_callv'] = thrower('_ZTISt17bad_function_call')
    M['_ZSt26__throw_bad_variant_accessPKc'] = thrower('_ZTISt18bad_variant_access')
    M['_ZSt27__throw_bad_optional_accessv'] = thrower('_ZTISt19bad_optional_access')
    M['_ZSt20__throw_system_errori'] = thrower('_ZTISt12system_error')
    M['_ZSt16__throw_bad_castv'] = thrower('_ZTISt8bad_cast')
    M['_ZNSt10filesystem7__cxx114path5_ListC1Ev'] = m_fs_list_ctor; M['_ZNSt10filesystem7__cxx114path5_ListC2Ev'] = m_fs_list_ctor
    M['_ZNSt10filesystem7__cxx114path5_ListC1ERKS2_'] = m_fs_list_copy; M['_ZNSt10filesystem7__cxx114path5_ListC2ERKS2_'] = m_fs_list_copy
    M['_ZNSt10filesystem7__cxx114path5_ListaSERKS2_'] = m_fs_list_assign
    M['_ZNKSt10filesystem7__cxx114path5_List13_Impl_deleterclEPNS2_5_ImplE'] = m_fs_impl_delete
    M['_ZNSt10filesystem7__cxx114path5_List5clearEv'] = m_fs_list_clear
    M['_ZNSt10filesystem7__cxx114path14_M_split_cmptsEv'] = m_fs_split_cmpts
    E.model_patterns = [(_Pat(), None)]
    def mbp(name):
        r = pattern_model(name)
        if r is None and getattr(E, 'stream_sink', False): r = stream_sink_model(name)
        return r
    E.model_by_pattern = mbp
