"""Randomised equivalence self-test of linarith.narrow_cmp: every narrowed comparison must be equivalent to the original one
(decided by z3 on 32-bit instances, where the original is still easy to bit-blast)."""
import sys, os, random, collections
sys.path.insert(0, os.path.dirname(os.path.abspath(__file__)))
import z3, linarith
ICMP = {'eq': lambda a, b: a == b, 'ne': lambda a, b: a != b, 'ugt': z3.UGT, 'uge': z3.UGE, 'ult': z3.ULT, 'ule': z3.ULE,
        'sgt': lambda a, b: a > b, 'sge': lambda a, b: a >= b, 'slt': lambda a, b: a < b, 'sle': lambda a, b: a <= b}
def main(n=120, seed=7, W=32):
    random.seed(seed)
    st = collections.Counter()
    vs = [z3.BitVec('v%d' % i, 5) for i in range(4)]
    K = 1000
    def ext(v):
        k = random.randint(0, 3)
        if k == 0: return z3.ZeroExt(W - 5, v)
        if k == 1: return z3.SignExt(W - 5, v)
        if k == 2: return z3.ZeroExt(W - 12, z3.ZeroExt(7, v) + z3.BitVecVal(1, 12))
        return z3.SignExt(W - 12, z3.SignExt(7, v) - z3.BitVecVal(8, 12))
    def term():
        t = z3.BitVecVal(random.choice([0, 5000 * K, 4998 * K, 7]), W)
        for v in random.sample(vs, random.randint(1, 3)):
            x = ext(v) * z3.BitVecVal(random.choice([K, 125, 1, -K % 2 ** W, 3]), W)
            t = t + x if random.random() < 0.7 else t - x
        if random.random() < 0.4: t = z3.If(vs[0] > 3, t, t + z3.BitVecVal(K, W))
        if random.random() < 0.25:      # exact division of a multiple of K (duration_cast from a finer unit)
            v = random.choice(vs); t = t + (ext(v) * z3.BitVecVal(K, W) + z3.BitVecVal(3 * K, W)) / z3.BitVecVal(K, W)
        return t
    bad = done = 0
    for _ in range(n):
        a = term(); b = term(); pred = random.choice(list(ICMP))
        r = linarith.narrow_cmp(pred, z3.simplify(a), z3.simplify(b), W, st)
        if r is None: continue
        done += 1
        s = z3.Solver(); s.set('timeout', 20000); s.add(r != ICMP[pred](a, b))
        if s.check() != z3.unsat: bad += 1; print('linarith MISMATCH/unknown', pred, a, b, r)
    print('linarith self-test: %d narrowed comparisons checked equivalent, %d bad' % (done, bad))
    return 0 if bad == 0 and done > n // 3 else 1
if __name__ == '__main__': sys.exit(main())
