#!/usr/bin/env python3
"""Engine S: symbolic executor over clang-14 LLVM IR (typed pointers) on z3.

Design (DESIGN.md 2.2): concrete addresses, byte memory with symbolic bytes,
fork on symbolic branches by *re-execution* along a recorded decision trace
(DFS), exhaustive enumeration of symbolic sizes with caps, real exception
unwinding, optional merged ("summarised") calls for pure helper functions.
"""
import os, sys, os, re, struct, time, bisect, json, collections
import z3
import irparse
import linarith
USE_LIN = not os.environ.get('VERIF_NO_LINARITH')
from irparse import V, Ty

sys.setrecursionlimit(100000)

M64 = (1 << 64) - 1

class EngineError(Exception):
    """The engine cannot encode something: never a pass, never a violation."""
class PathEnd(Exception):
    def __init__(s, kind, info=None): s.kind = kind; s.info = info
class MergeAbort(Exception):
    pass
class Unwind(Exception):
    pass

def is_sym(x): return not isinstance(x, (int, float, list))

def bvv(x, w):
    return z3.BitVecVal(x, w) if isinstance(x, int) else x

def to_bv(x, w):
    """x: int | BitVecRef | BoolRef -> BitVecRef of width w"""
    if isinstance(x, int): return z3.BitVecVal(x, w)
    if z3.is_bool(x): return z3.If(x, z3.BitVecVal(1, w), z3.BitVecVal(0, w))
    return x

def to_bool(x):
    if isinstance(x, int): return z3.BoolVal(bool(x & 1))
    if z3.is_bool(x): return x
    if x.size() == 1: return x == z3.BitVecVal(1, 1)
    return z3.Extract(0, 0, x) == z3.BitVecVal(1, 1)

def sgn(x, w):
    return x - (1 << w) if x >> (w - 1) else x

def simp(e):
    return z3.simplify(e)

def as_concrete(e):
    """z3 expr -> python int if it is a numeral / true / false, else None"""
    if z3.is_bv_value(e): return e.as_long()
    if z3.is_true(e): return 1
    if z3.is_false(e): return 0
    return None

def norm(e):
    """simplify; return python int when constant"""
    if isinstance(e, (int, float, list)): return e
    e = z3.simplify(e)
    c = as_concrete(e)
    return e if c is None else c

# --------------------------------------------------------------------------- memory
class Obj:
    __slots__ = ('base', 'size', 'data', 'sym', 'alive', 'kind', 'name', 'ro', 'ver', 'arr', 'arrver')
    def __init__(s, base, size, kind, name='', ro=False):
        s.base = base; s.size = size; s.data = bytearray(size); s.sym = None
        s.alive = True; s.kind = kind; s.name = name; s.ro = ro; s.ver = 0; s.arr = None; s.arrver = -1
    def clone(s):
        o = Obj.__new__(Obj)
        o.base = s.base; o.size = s.size; o.data = bytearray(s.data); o.sym = dict(s.sym) if s.sym else None
        o.alive = s.alive; o.kind = s.kind; o.name = s.name; o.ro = s.ro; o.ver = 0; o.arr = None; o.arrver = -1
        return o

def sym_byte(ent):
    """materialise a symbolic byte entry as an 8-bit term"""
    if isinstance(ent, tuple):
        val, i = ent
        return z3.Extract(8 * i + 7, 8 * i, val)
    return ent

class Decision:
    __slots__ = ('alts', 'idx', 'why')
    def __init__(s, alts, why=''): s.alts = alts; s.idx = 0; s.why = why

class Frame:
    __slots__ = ('fn', 'regs', 'ins', 'pc', 'cur', 'prev', 'allocas', 'retslot', 'unwind_to', 'normal_to', 'va')
    def __init__(s): s.allocas = []; s.unwind_to = None; s.normal_to = None; s.retslot = None; s.prev = None; s.va = None

class CBlock:
    __slots__ = ('label', 'ins', 'lpad')
class CFn:
    __slots__ = ('name', 'fn', 'mod', 'nregs', 'slots', 'blocks', 'entry', 'pslots', 'byval', 'vararg')

FUNC_BASE = 0x1000
GLOB_BASE = 0x100000
DYN_BASE = 0x10000000
GAP = 64

STD_BASES = dict(irparse.STD_BASES) if hasattr(irparse, 'STD_BASES') else {}

class Thrown(Exception):
    pass

class Engine:
    def __init__(s, modules, merge=(), check_ub=True, timeout_ms=20000, max_steps=5_000_000, enum_cap=64, verbose=0):
        s.mods = modules
        s.funcs = {}; s.globals = {}; s.decls = {}
        for m in modules:
            for n, f in m.funcs.items():
                if n not in s.funcs: s.funcs[n] = (f, m)
            for n, g in m.globals.items():
                if n not in s.globals or (s.globals[n][1] is None and g[1] is not None): s.globals[n] = (g[0], g[1], g[2], m)
            for n, d in m.decls.items(): s.decls.setdefault(n, d)
        s.compiled = {}
        s.models = {}
        s.merge_res = [re.compile(x) for x in merge]
        s.merge_cache = {}
        s.check_ub = check_ub; s.timeout_ms = timeout_ms; s.max_steps = max_steps; s.enum_cap = enum_cap; s.verbose = verbose
        # static address layout
        s.gaddr = {}; s.addr_func = {}
        a = FUNC_BASE
        names = list(s.funcs) + [n for n in s.decls if n not in s.funcs] + list(models.PSEUDO_FUNCS)
        for k_, v_ in irparse.STD_BASES.items():
            for n in (k_, v_):
                if n not in s.globals: s.globals[n] = (Ty('arr', 64, irparse.INT(8)), None, True, modules[0])
            vt = '_ZTV' + k_[4:]
            if vt not in s.globals: s.globals[vt] = (Ty('arr', 64, irparse.INT(8)), None, True, modules[0])
        for n in names:
            s.gaddr[n] = a; s.addr_func[a] = n; a += 16
        assert a < GLOB_BASE
        a = GLOB_BASE
        s.gbases = []; s.gnames = []; s.gsize = {}
        for n, (t, init, const, m) in s.globals.items():
            try: sz = m.sizeof(t)
            except Exception: sz = 64
            if init is None: sz = max(sz, 64)
            s.gaddr[n] = a; s.gbases.append(a); s.gnames.append(n); s.gsize[n] = sz
            a = (a + sz + GAP + 15) & ~15
        assert a < DYN_BASE
        s.gimage = {}
        s.stats = collections.Counter()
        s.t_solver = 0.0
        s.snapshot = None
        s.redirect = {}; s.ufs = {}; s.sym_store_max = 1024; s.depth_limit = 0
        s.unsat_cache = set(); s.check_seq = 0; s.trace = []; s.pos = 0; s.merge_depth = 0
        s.lockset_log = {}          # (context, region, 'w'|'r') -> set of frozenset(lock names): accumulated over all paths (lock discipline, C36)
        models.install(s)

    # ------------------------------------------------------------------ per-path state
    def reset_path(s):
        s.frames = []
        s.solver = z3.SolverFor('QF_UFBV' if s.ufs or s.redirect else 'QF_BV'); s.solver.set('timeout', s.timeout_ms)
        s.pc = []
        s.syms = []
        s.nsym = 0
        s.pos = 0
        s._model = None
        s.depth_limit = 0; s._errno_obj = None; s._category_system = None; s._category_generic = None
        s.watch = []; s.lock_names = {}; s.held = []; s.ctx = None
        s.check_seq = 0
        s.steps = 0
        s.exc = None; s.caught = []
        s.observed = []
        s.notes = []
        s.merge_depth = 0; s.merge_floor_addr = None
        s.unwind_floor = 0
        s.path_viol = []
        if s.snapshot is None:
            s.gobjs = {}; s.dbases = []; s.dobjs = []; s.next_addr = DYN_BASE
        else:
            go, db, do, na = s.snapshot
            s.gobjs = {b: o.clone() for b, o in go.items()}
            s.dbases = list(db); s.dobjs = [o.clone() for o in do]; s.next_addr = na

    def take_snapshot(s):
        s.snapshot = ({b: o.clone() for b, o in s.gobjs.items()}, list(s.dbases), [o.clone() for o in s.dobjs], s.next_addr)

    # ------------------------------------------------------------------ symbols / solver
    def fresh(s, name, w):
        if s.merge_depth: raise MergeAbort('nondet in merged call')
        nm = "%s!%d" % (name, s.nsym); s.nsym += 1
        c = z3.BitVec(nm, w)
        s.syms.append((nm, w, c))
        return c

    def add_pc(s, c):
        s.pc.append(c); s.solver.add(c)

    def check(s, *assump):
        # re-execution of a decision prefix repeats exactly the same obligation queries: remember the ones that were unsat.
        # key = (decisions taken so far, number of queries since the last decision); execution is deterministic given the decisions.
        key = None
        if s.merge_depth == 0 and s.unsat_cache is not None:
            key = (tuple(d.idx for d in s.trace[:s.pos]), s.check_seq)
            s.check_seq += 1
            if key in s.unsat_cache:
                s.stats['queries_cached'] += 1
                if os.environ.get('VERIF_CACHE_VERIFY'):
                    if s.check_uncached(*assump):
                        sys.stderr.write('CACHE-MISMATCH key=%s stack=%s assump=%s\n' % (key, s.stack_names()[-4:], [str(a)[:300] for a in assump]))
                        return True
                return False
        r = s.check_uncached(*assump)
        if key is not None and not r: s.unsat_cache.add(key)
        return r

    def model(s):
        return s._model if s._model is not None else s.solver.model()

    def check_uncached(s, *assump):
        """1. the path's incremental z3 solver with a short timeout (cheap for the many easy queries);
           2. a portfolio of one-shot back ends run concurrently as subprocesses on the exported SMT-LIB2 query - z3 (full QF_BV
              preprocessing, which incremental mode skips), cvc5 bit-blasting, cvc5 with the integer encoding of bit-vectors
              (--solve-bv-as-int=sum, decisive for multiplication/division by constants) - first definite answer wins;
              a sat answer is re-established in z3 by pinning every symbol to the reported model, so the model read is z3's own."""
        t = time.time()
        s._model = None
        first = min(s.timeout_ms, 300 if s.stats['z3_unknown'] >= 2 else 2000)
        s.solver.set('timeout', first)
        try: r = s.solver.check(*assump)
        except z3.Z3Exception: r = z3.unknown      # seen when a timeout interrupts the simplifier
        s.stats['queries'] += 1
        if r == z3.unknown:
            s.stats['z3_unknown'] += 1
            r = s.check_portfolio(assump)
            if r == z3.unknown:          # last resort: the incremental solver with the full budget
                s.solver.set('timeout', s.timeout_ms)
                try: r = s.solver.check(*assump)
                except z3.Z3Exception: r = z3.unknown
        s.t_solver += time.time() - t
        if r == z3.unknown:
            dbg = os.environ.get('VERIF_DUMP_UNKNOWN')
            if dbg:
                try:
                    s2 = z3.Solver(); s2.add(s.solver.assertions())
                    for a in assump: s2.add(a)
                    with open(dbg, 'w') as f:
                        f.write('(set-logic QF_BV)\n' + s2.to_smt2()); f.write('\n; stack: %s\n' % (s.stack_names(),))
                except Exception: pass
            raise EngineError('solver returned unknown (all back ends): %s (in %s)' % (s.solver.reason_unknown(), '>'.join(s.stack_names()[-3:])))
        return r == z3.sat

    PORTFOLIO = [('z3', ['z3', '-smt2']), ('cvc5-int', ['cvc5', '--solve-bv-as-int=sum']), ('cvc5', ['cvc5'])]

    def check_portfolio(s, assump):
        import subprocess, tempfile
        logic = 'QF_UFBV' if s.ufs or s.redirect else 'QF_BV'
        s2 = z3.Solver()
        s2.add(s.solver.assertions())
        for a in assump: s2.add(a)
        txt = '(set-option :produce-models true)\n(set-logic %s)\n' % logic + s2.to_smt2().replace('(check-sat)', '') + '\n(check-sat)\n(get-model)\n'
        # z3 prints its internal total-division operators; SMT-LIB 2.6 fixes x/0 and x%0 the same way, so the standard names are equivalent
        for op in ('bvudiv', 'bvurem', 'bvsdiv', 'bvsrem', 'bvsmod'): txt = txt.replace(op + '_i', op)
        d = os.environ.get('VERIF_WORK') or tempfile.gettempdir()
        fn = os.path.join(d, 'q_%d.smt2' % os.getpid())
        with open(fn, 'w') as f: f.write(txt)
        limit = s.timeout_ms / 1000.0
        procs = []
        try:
            for name, cmd in s.PORTFOLIO:
                try: procs.append((name, subprocess.Popen(cmd + [fn], stdout=subprocess.PIPE, stderr=subprocess.PIPE, text=True)))
                except OSError: pass
            t0 = time.time(); verdict = z3.unknown; out = ''
            live = list(procs)
            while live and time.time() - t0 < limit:
                progressed = False
                for ent in list(live):
                    name, p = ent
                    if p.poll() is None: continue
                    live.remove(ent); progressed = True
                    o, e = p.communicate()
                    if os.environ.get('VERIF_DEBUG'): sys.stderr.write('portfolio %s rc=%s %.1fs out=%r err=%r\n' % (name, p.returncode, time.time() - t0, o[:200], e[:200]))
                    head = o.strip().split('\n', 1)[0].strip() if o.strip() else ''
                    rest = o.strip().split('\n', 1)[1] if '\n' in o.strip() else ''
                    if head == 'unsat' and '(error' not in e:
                        errs = [l for l in rest.splitlines() if l.startswith('(error')]
                        if all(('model' in l) for l in errs):       # only the reply to (get-model) after unsat is tolerated
                            verdict = z3.unsat; s.stats['portfolio_' + name] += 1; break
                    elif head == 'sat' and '(error' not in o and '(error' not in e:
                        vals = {}
                        for mm in re.finditer(r'\(define-fun\s+(\|[^|]*\||\S+)\s+\(\)\s+\(_\s+BitVec\s+(\d+)\)\s+(#x[0-9a-fA-F]+|#b[01]+)\s*\)', o):
                            nm = mm.group(1).strip('|'); lit = mm.group(3)
                            vals[nm] = int(lit[2:], 16 if lit[1] == 'x' else 2)
                        pins = [c == vals[nm] for nm, w, c in s.syms if nm in vals]
                        s3 = z3.SolverFor(logic); s3.set('timeout', 20000)
                        s3.add(s.solver.assertions())
                        for a in list(assump) + pins: s3.add(a)
                        try: r2 = s3.check()
                        except z3.Z3Exception: r2 = z3.unknown
                        if r2 == z3.sat:
                            s._model = s3.model(); verdict = z3.sat; s.stats['portfolio_' + name] += 1; break
                if verdict != z3.unknown: break
                if not progressed: time.sleep(0.01)
            if os.environ.get('VERIF_SLOWQ') and time.time() - t0 > float(os.environ.get('VERIF_SLOWQ_T', '5')):
                import shutil; shutil.copy(fn, os.path.join(os.environ['VERIF_SLOWQ'], 'slow_%d_%d.smt2' % (os.getpid(), s.stats['z3_unknown'])))
            return verdict
        finally:
            for name, p in procs:
                if p.poll() is None:
                    try: p.kill()
                    except Exception: pass
                try: p.communicate(timeout=5)
                except Exception: pass
            try: os.unlink(fn)
            except Exception: pass

    def decide(s, mk_alts, why=''):
        if s.pos < len(s.trace): d = s.trace[s.pos]
        else:
            d = Decision(mk_alts(), why); s.trace.append(d)
            if not d.alts: raise PathEnd('infeasible')
        s.pos += 1
        s.check_seq = 0
        return d.alts[d.idx]

    def branch(s, cond):
        """cond: symbolic Bool. returns python bool (forking)"""
        c = as_concrete(cond)
        if c is not None: return bool(c)
        def mk():
            s.stats['forks_considered'] += 1
            t = s.check(cond)
            f = s.check(z3.Not(cond)) if t else True
            if t and f: s.stats['forks'] += 1
            return ([True] if t else []) + ([False] if f else [])
        ch = s.decide(mk, 'br')
        s.add_pc(cond if ch else z3.Not(cond))
        return ch

    def concretize(s, e, cap=None, why='size'):
        """enumerate all feasible values of e (bounded by cap) - forks"""
        if isinstance(e, int): return e
        e = z3.simplify(e)
        c = as_concrete(e)
        if c is not None: return c
        cap = cap or s.enum_cap
        def mk():
            vals = []
            s.solver.push()
            try:
                while s.check():
                    v = s.model().eval(e, model_completion=True).as_long()
                    vals.append(v)
                    if len(vals) > cap:
                        raise EngineError('enumeration cap %d exceeded for %s (%s)' % (cap, why, str(e)[:80]))
                    s.solver.add(e != v)
            finally:
                s.solver.pop()
            s.stats['enumerations'] += 1
            return sorted(vals)
        v = s.decide(mk, why)
        s.add_pc(e == v)
        return v

    def model_values(s, model):
        out = []
        for nm, w, c in s.syms:
            out.append((nm, w, model.eval(c, model_completion=True).as_long()))
        return out

    def violation(s, kind, msg, cond=None):
        """record a violation; cond = the (sat-checked) violating condition or None for unconditional"""
        if s.merge_depth: raise MergeAbort('violation inside merged call')
        if cond is not None:
            if not s.check(cond): return False
        else:
            if not s.check(): return False
        mv = s.model_values(s.model())
        s.path_viol.append({'kind': kind, 'msg': msg, 'model': mv, 'stack': s.stack_names()})
        return True

    def stack_names(s):
        return [f.fn.name for f in s.frames][-12:]

    # ------------------------------------------------------------------ memory
    def alloc(s, size, kind, name=''):
        if not isinstance(size, int): raise EngineError('symbolic allocation size reached alloc()')
        if size > (1 << 26):
            # an allocation above 64 MiB inside a bounded harness is input-driven (e.g. an unchecked or wrapped length field)
            if s.merge_depth: raise MergeAbort('huge allocation in merged call')
            s.violation('memory', 'allocation of %d bytes requested (length taken from unchecked input?)' % size)
            raise PathEnd('error', 'huge allocation %d' % size)
        b = s.next_addr
        o = Obj(b, size, kind, name)
        s.dbases.append(b); s.dobjs.append(o)
        s.next_addr = (b + size + GAP + 15) & ~15
        return o

    def global_image(s, n):
        im = s.gimage.get(n)
        if im is None:
            t, init, const, m = s.globals[n]
            sz = s.gsize[n]
            buf = bytearray(sz)
            if init is not None:
                s.const_into(m, t, init, buf, 0)
            elif n in models.SYNTH_GLOBALS:
                models.SYNTH_GLOBALS[n](s, buf)
            elif n.startswith('_ZTV'):
                models.synth_vtable(s, n, buf)
            im = bytes(buf); s.gimage[n] = im
        return im

    def find(s, addr):
        if addr >= DYN_BASE:
            i = bisect.bisect_right(s.dbases, addr) - 1
            if i >= 0:
                o = s.dobjs[i]
                if addr <= o.base + o.size: return o
            return None
        if addr >= GLOB_BASE:
            i = bisect.bisect_right(s.gbases, addr) - 1
            b = s.gbases[i]
            o = s.gobjs.get(b)
            if o is None:
                n = s.gnames[i]
                o = Obj(b, s.gsize[n], 'global', n, s.globals[n][2])
                o.data[:] = s.global_image(n)
                s.gobjs[b] = o
            if addr <= o.base + o.size: return o
        return None

    def mem_error(s, what, addr, n):
        if s.merge_depth: raise MergeAbort('memory error in merged call')
        s.violation('memory', '%s at 0x%x size %d' % (what, addr if isinstance(addr, int) else -1, n))
        raise PathEnd('error', what)

    def note_access(s, addr, n, write):
        """lock discipline: an access to a watched region inside a named context is logged with the set of mutexes held"""
        for lo, hi, name in s.watch:
            if addr < hi and addr + n > lo:
                held = frozenset(s.lock_names.get(a, 'mutex@0x%x' % a) for a in s.held)
                s.lockset_log.setdefault((s.ctx, name, 'w' if write else 'r'), set()).add(held)

    def locate(s, addr, n, write=False):
        """concrete addr -> (obj, off), with checks"""
        if s.ctx is not None and s.watch: s.note_access(addr, n, write)
        o = s.find(addr)
        if o is None:
            s.mem_error('null pointer access' if addr < 4096 else 'access outside any object', addr, n)
        off = addr - o.base
        if off + n > o.size: s.mem_error('out-of-bounds %s of %s object %s (size %d, offset %d)' % ('write' if write else 'read', o.kind, o.name, o.size, off), addr, n)
        if not o.alive: s.mem_error('use after free/return of %s object %s' % (o.kind, o.name), addr, n)
        if write:
            if s.merge_depth and o.base < s.merge_floor_addr: raise MergeAbort('store outside merged call')
            o.ver += 1
        return o, off

    def resolve_sym_addr(s, addr, n, write=False):
        """symbolic address -> (obj, off_expr) with solver-checked bounds"""
        addr = z3.simplify(addr)
        c = as_concrete(addr)
        if c is not None:
            o, off = s.locate(c, n, write); return o, off
        o = None
        if z3.is_app_of(addr, z3.Z3_OP_BADD):
            for ch in addr.children():
                if z3.is_bv_value(ch):
                    o = s.find(ch.as_long())
                    if o is not None and ch.as_long() == o.base + o.size and o.size > 0: pass
                    break
        if o is None:
            # pointer chosen among several objects (select/phi of pointers): enumerate the feasible target objects and fork
            def mk():
                objs = []
                s.solver.push()
                try:
                    while s.check():
                        a = s.model().eval(addr, model_completion=True).as_long()
                        oo = s.find(a)
                        if oo is None:
                            objs.append(('none', a)); break
                        objs.append(('obj', oo.base))
                        s.solver.add(z3.Or(z3.ULT(addr, z3.BitVecVal(oo.base, 64)), z3.UGE(addr, z3.BitVecVal(oo.base + max(oo.size, 1), 64))))
                        if len(objs) > 32:
                            # not a choice among a few pointers but an index that can run across many neighbouring objects: the access
                            # belongs to the lowest-addressed object the address can reach (base + symbolic offset); the bounds check
                            # below then reports the overrun
                            low = None
                            s.solver.pop(); s.solver.push()
                            for _ in range(64):
                                if not s.check(): break
                                a = s.model().eval(addr, model_completion=True).as_long()
                                oo = s.find(a)
                                if oo is None: low = None; break
                                low = oo
                                s.solver.add(z3.ULT(addr, z3.BitVecVal(oo.base, 64)))
                            else:
                                low = None
                            if low is None: raise EngineError('symbolic pointer with more than 32 candidate objects')
                            return [('index', low.base)]
                finally:
                    s.solver.pop()
                return objs
            kind, b = s.decide(mk, 'pointer target')
            if kind == 'none':
                s.mem_error('symbolic pointer can address no object', b, n)
            o = s.find(b)
            if kind != 'index':
                s.add_pc(z3.And(z3.UGE(addr, z3.BitVecVal(o.base, 64)), z3.ULT(addr, z3.BitVecVal(o.base + max(o.size, 1), 64))))
        off = z3.simplify(addr - z3.BitVecVal(o.base, 64))
        if o.size < n:
            s.mem_error('out-of-bounds access (object %s smaller than access)' % o.name, o.base, n)
        bad = z3.UGT(off, z3.BitVecVal(o.size - n, 64))
        if s.check(bad):
            if s.merge_depth: raise MergeAbort('possible OOB in merged call')
            s.violation('memory', 'out-of-bounds %s possible: %s object %s size %d, symbolic offset' % ('write' if write else 'read', o.kind, o.name, o.size), bad)
            s.add_pc(z3.Not(bad))
            if not s.check(): raise PathEnd('error', 'oob')
        else:
            s.add_pc(z3.Not(bad))
        if not o.alive: s.mem_error('use after free of %s' % o.name, o.base, n)
        if write:
            if s.merge_depth and o.base < s.merge_floor_addr: raise MergeAbort('store outside merged call')
            o.ver += 1
        return o, off

    def obj_array(s, o):
        if o.arr is not None and o.arrver == o.ver: return o.arr
        a = z3.K(z3.BitVecSort(64), z3.BitVecVal(0, 8))
        sym = o.sym or {}
        for i in range(o.size):
            e = sym.get(i)
            if e is not None: a = z3.Store(a, z3.BitVecVal(i, 64), sym_byte(e))
            elif o.data[i]: a = z3.Store(a, z3.BitVecVal(i, 64), z3.BitVecVal(o.data[i], 8))
        o.arr = a; o.arrver = o.ver
        return a

    def ite_select(s, o, off, lane):
        """byte at symbolic offset off(+lane) of object o as a balanced If-tree over the index bits"""
        size = o.size; k = max(1, (size - 1).bit_length())
        idx = z3.Extract(k - 1, 0, off + z3.BitVecVal(lane, 64)) if lane else z3.Extract(k - 1, 0, off)
        idx = z3.simplify(idx)
        bits = [z3.Extract(i, i, idx) == z3.BitVecVal(1, 1) for i in range(k)]
        sym = o.sym or {}
        data = o.data
        def leaf(i):
            if i >= size: return None
            e = sym.get(i)
            if e is not None: return sym_byte(e)
            return data[i]
        def build(lo, bit):
            # subtree covering [lo, lo + 2^(bit+1))
            if bit < 0: return leaf(lo)
            a = build(lo, bit - 1); b = build(lo + (1 << bit), bit - 1)
            if b is None: return a
            if a is None: return b
            if a.__class__ is int and b.__class__ is int and a == b: return a
            return z3.If(bits[bit], to_bv(b, 8), to_bv(a, 8))
        r = build(0, k - 1)
        return to_bv(r, 8)

    def load(s, addr, n):
        """returns int or BitVec(8n)"""
        if not isinstance(addr, int):
            o, off = s.resolve_sym_addr(addr, n)
            if not isinstance(off, int):
                if o.size <= 4096:
                    s.stats['sym_loads'] += 1
                    bs = [s.ite_select(o, off, i) for i in range(n)]
                    return z3.simplify(z3.Concat(*reversed(bs))) if n > 1 else bs[0]
                off = s.concretize(off, why='symbolic load offset')
        else:
            o, off = s.locate(addr, n)
        sym = o.sym
        if not sym:
            return int.from_bytes(o.data[off:off + n], 'little')
        return s.load_obj(o, off, n)

    def load_obj(s, o, off, n):
        sym = o.sym
        ents = [sym.get(off + i) for i in range(n)]
        e0 = ents[0]
        if isinstance(e0, tuple) and e0[1] == 0 and e0[0].size() == 8 * n:
            v = e0[0]
            for i in range(1, n):
                e = ents[i]
                if not (isinstance(e, tuple) and e[0] is v and e[1] == i): break
            else:
                return v
        if all(e is None for e in ents):
            return int.from_bytes(o.data[off:off + n], 'little')
        # group consecutive pieces
        parts = []   # low to high
        i = 0
        while i < n:
            e = ents[i]
            if e is None:
                j = i
                while j < n and ents[j] is None: j += 1
                parts.append(z3.BitVecVal(int.from_bytes(o.data[off + i:off + j], 'little'), 8 * (j - i)))
                i = j
            elif isinstance(e, tuple):
                v, k = e; j = i + 1; kk = k + 1
                while j < n and isinstance(ents[j], tuple) and ents[j][0] is v and ents[j][1] == kk: j += 1; kk += 1
                parts.append(z3.Extract(8 * kk - 1, 8 * k, v) if (kk - k) * 8 != v.size() else v)
                i = j
            else:
                parts.append(e); i += 1
        if len(parts) == 1: return parts[0]
        return z3.Concat(*reversed(parts))

    def store(s, addr, n, val):
        """val: int or BitVec(8n)"""
        if not isinstance(addr, int):
            o, off = s.resolve_sym_addr(addr, n, True)
            if not isinstance(off, int):
                if o.size <= s.sym_store_max and n <= 8 and not o.ro:
                    return s.store_sym_off(o, off, n, val)
                off = s.concretize(off, why='symbolic store offset')
        else:
            o, off = s.locate(addr, n, True)
        if o.ro: s.mem_error('write to constant object ' + o.name, addr, n)
        if isinstance(val, int):
            o.data[off:off + n] = (val & ((1 << (8 * n)) - 1)).to_bytes(n, 'little')
            sym = o.sym
            if sym:
                for i in range(off, off + n): sym.pop(i, None)
        else:
            sym = o.sym
            if sym is None: sym = o.sym = {}
            if n == 1: sym[off] = val
            else:
                for i in range(n): sym[off + i] = (val, i)

    def store_sym_off(s, o, off, n, val):
        """store at a symbolic in-bounds offset of a small object: every byte becomes If(off == q - i, new, old)"""
        s.stats['sym_stores'] += 1
        if isinstance(val, int): vb = [(val >> (8 * i)) & 255 for i in range(n)]
        elif n == 1: vb = [val]
        else: vb = [z3.Extract(8 * i + 7, 8 * i, val) for i in range(n)]
        sym = o.sym
        if sym is None: sym = o.sym = {}
        upd = {}
        for q in range(o.size):
            e = sym.get(q)
            old = sym_byte(e) if e is not None else o.data[q]
            new = old
            for i in range(n):
                p0 = q - i
                if p0 < 0 or p0 > o.size - n: continue
                new = z3.If(off == z3.BitVecVal(p0, 64), to_bv(vb[i], 8), to_bv(new, 8))
            if new is not old: upd[q] = z3.simplify(new)
        for q, v in upd.items(): sym[q] = v

    def load_bytes(s, addr, n):
        """list of n byte values (int or 8-bit terms) - concrete address"""
        o, off = s.locate(addr, n)
        sym = o.sym
        if not sym: return list(o.data[off:off + n])
        return [sym_byte(sym[off + i]) if (off + i) in sym else o.data[off + i] for i in range(n)]

    def read_cstr(s, addr, maxn=4096):
        if not isinstance(addr, int): addr = s.concretize(addr, why='string pointer')   # select between literals: fork
        o, off = s.locate(addr, 1)
        end = o.data.find(b'\0', off)
        if end < 0: end = o.size
        return bytes(o.data[off:end]).decode('latin1')

    def memcpy(s, dst, src, n):
        if n == 0: return
        so, soff = s.locate(src, n)
        do, doff = s.locate(dst, n, True)
        if do.ro: s.mem_error('write to constant object ' + do.name, dst, n)
        ssym = so.sym
        if ssym:
            ents = [(i, ssym.get(soff + i)) for i in range(n)]
        else: ents = None
        data = bytes(so.data[soff:soff + n])
        do.data[doff:doff + n] = data
        dsym = do.sym
        if dsym:
            for i in range(doff, doff + n): dsym.pop(i, None)
        if ents:
            for i, e in ents:
                if e is not None:
                    if dsym is None: dsym = do.sym = {}
                    dsym[doff + i] = e

    def memset(s, dst, b, n):
        if n == 0: return
        do, doff = s.locate(dst, n, True)
        if isinstance(b, int):
            do.data[doff:doff + n] = bytes([b & 255]) * n
            if do.sym:
                for i in range(doff, doff + n): do.sym.pop(i, None)
        else:
            if do.sym is None: do.sym = {}
            for i in range(n): do.sym[doff + i] = b

    def free(s, addr):
        if addr == 0: return
        o = s.find(addr)
        if o is None or o.base != addr or o.kind != 'heap':
            s.violation('memory', 'free of a non-heap or interior pointer 0x%x' % addr); raise PathEnd('error', 'bad free')
        if not o.alive:
            s.violation('memory', 'double free of ' + o.name); raise PathEnd('error', 'double free')
        if s.merge_depth and o.base < s.merge_floor_addr: raise MergeAbort('free outside merged call')
        o.alive = False

    # ------------------------------------------------------------------ constants
    def const_val(s, m, v):
        """evaluate an irparse.V constant operand to a python value (ints for scalars/pointers, list for aggregates)"""
        k = v.k
        if k == 'const':
            t = m.resolve(v.t)
            if t.k == 'int':
                x = int(v.a)
                return x & ((1 << t.a) - 1)
            if t.k in ('double', 'float'):
                a = v.a
                if a.startswith('0x'):
                    return struct.unpack('<d', struct.pack('<Q', int(a, 16)))[0]
                return float(a)
            raise EngineError('const of type ' + t.k)
        if k == 'null': return 0
        if k == 'glob':
            a = s.gaddr.get(v.a)
            if a is None: raise EngineError('unknown global ' + v.a)
            return a
        if k in ('zero', 'undef'):
            return s.zero_val(m, v.t)
        if k == 'agg':
            return [s.const_val(m, e) for e in v.a]
        if k == 'cstr':
            return list(parse_cstr(v.a))
        if k == 'cgep':
            bt, base, idx = v.a
            a = s.const_val(m, base)
            return (a + s.gep_const(m, bt, [s.const_val(m, i) if True else 0 for i in idx], [i.t for i in idx])) & M64
        if k == 'ccast':
            op, x, dt = v.a
            val = s.const_val(m, x)
            dt = m.resolve(dt)
            if dt.k == 'int' and isinstance(val, int): return val & ((1 << dt.a) - 1)
            return val
        if k == 'cbin':
            op, a, b = v.a
            x = s.const_val(m, a); y = s.const_val(m, b)
            w = m.resolve(a.t).a if m.resolve(a.t).k == 'int' else 64
            return binop_concrete(op, x, y, w)
        raise EngineError('const kind ' + k)

    def zero_val(s, m, t):
        t = m.resolve(t)
        if t.k in ('int', 'ptr'): return 0
        if t.k in ('double', 'float'): return 0.0
        if t.k == 'arr': return [s.zero_val(m, t.b) for _ in range(t.a)]
        if t.k == 'struct': return [s.zero_val(m, f) for f in t.a]
        raise EngineError('zero of ' + t.k)

    def gep_const(s, m, bt, idxvals, idxtys):
        off = 0; t = bt
        for n, iv in enumerate(idxvals):
            it = m.resolve(idxtys[n])
            iv = sgn(iv, it.a)
            if n == 0:
                off += iv * m.sizeof(t)
            else:
                t = m.resolve(t)
                if t.k == 'struct':
                    off += m.layout(t)[0][iv]; t = t.a[iv]
                elif t.k in ('arr', 'vec'):
                    off += iv * m.sizeof(t.b); t = t.b
                else: raise EngineError('gep into ' + t.k)
        return off

    def const_into(s, m, t, v, buf, off):
        t = m.resolve(t)
        k = v.k
        if k in ('zero', 'undef'): return
        if t.k == 'int':
            n = m.sizeof(t); buf[off:off + n] = (s.const_val(m, v) & ((1 << (8 * n)) - 1)).to_bytes(n, 'little'); return
        if t.k in ('ptr', 'func'):
            buf[off:off + 8] = (s.const_val(m, v) & M64).to_bytes(8, 'little'); return
        if t.k == 'double':
            buf[off:off + 8] = struct.pack('<d', s.const_val(m, v)); return
        if t.k == 'float':
            buf[off:off + 4] = struct.pack('<f', s.const_val(m, v)); return
        if t.k == 'arr':
            if k == 'cstr':
                b = parse_cstr(v.a); buf[off:off + len(b)] = b; return
            es = m.sizeof(t.b)
            for i, e in enumerate(v.a): s.const_into(m, t.b, e, buf, off + i * es)
            return
        if t.k == 'struct':
            offs = m.layout(t)[0]
            for i, e in enumerate(v.a): s.const_into(m, t.a[i], e, buf, off + offs[i])
            return
        raise EngineError('const_into ' + t.k)

def parse_cstr(tok):
    body = tok[2:-1]
    out = bytearray(); i = 0
    while i < len(body):
        c = body[i]
        if c == '\\':
            if body[i + 1] == '\\': out.append(92); i += 2
            else: out.append(int(body[i + 1:i + 3], 16)); i += 3
        else: out.append(ord(c)); i += 1
    return bytes(out)

def binop_concrete(op, x, y, w):
    mask = (1 << w) - 1
    if op == 'add': return (x + y) & mask
    if op == 'sub': return (x - y) & mask
    if op == 'mul': return (x * y) & mask
    if op == 'and': return x & y
    if op == 'or': return x | y
    if op == 'xor': return x ^ y
    if op == 'shl': return (x << y) & mask if y < w else 0
    if op == 'lshr': return x >> y if y < w else 0
    if op == 'ashr': return (sgn(x, w) >> min(y, w - 1)) & mask
    if op == 'udiv': return x // y
    if op == 'urem': return x % y
    if op == 'sdiv':
        a = sgn(x, w); b = sgn(y, w); q = abs(a) // abs(b)
        return (q if (a < 0) == (b < 0) else -q) & mask
    if op == 'srem':
        a = sgn(x, w); b = sgn(y, w); r = abs(a) % abs(b)
        return (r if a >= 0 else -r) & mask
    raise EngineError('binop ' + op)

# =========================================================================== compilation of IR to closures
def _eng_methods():
    pass

class Compiler:
    """mixin holding the IR -> closure compiler; methods are attached to Engine below"""

def cfn_for(E, name):
    cf = E.compiled.get(name)
    if cf is None:
        cf = compile_fn(E, name)
        E.compiled[name] = cf
    return cf

def compile_fn(E, name):
    fn, m = E.funcs[name]
    cf = CFn(); cf.name = name; cf.fn = fn; cf.mod = m; cf.vararg = fn.vararg
    slots = {}
    def slot(n):
        i = slots.get(n)
        if i is None: i = slots[n] = len(slots)
        return i
    cf.pslots = [slot(p[1]) for p in fn.params]
    cf.byval = [(m.sizeof(p[2]) if p[2] is not None else None) for p in fn.params]
    cf.slots = slots
    cf.blocks = {}
    for lbl in fn.blocks:
        b = CBlock(); b.label = lbl; b.ins = None; b.lpad = None
        cf.blocks[lbl] = b
    for lbl, body in fn.blocks.items():
        b = cf.blocks[lbl]
        out = []
        # phis first, as one parallel assignment
        phis = [i for i in body if i.op == 'phi']
        rest = [i for i in body if i.op != 'phi']
        if phis: out.append(mk_phis(E, cf, m, slot, phis))
        for ins in rest:
            if ins.op == 'landingpad': b.lpad = ins
            c = compile_ins(E, cf, m, slot, ins)
            if c is not None: out.append(c)
        b.ins = out
    cf.entry = cf.blocks[next(iter(fn.blocks))]
    cf.nregs = len(slots)
    return cf

def opnd(E, cf, m, slot, v):
    """-> (is_const, value_or_slot)"""
    if v.k == 'local': return (False, slot(v.a))
    return (True, E.const_val(m, v))

def mk_phis(E, cf, m, slot, phis):
    # table: prev label -> list of (dst slot, is_const, val)
    table = {}
    for p in phis:
        d = slot(p.res)
        for v, lbl in p.inc:
            table.setdefault(lbl, []).append((d,) + opnd(E, cf, m, slot, v))
    def run(fr):
        regs = fr.regs
        moves = table[fr.prev]
        if len(moves) == 1:
            d, c, v = moves[0]; regs[d] = v if c else regs[v]
        else:
            vals = [v if c else regs[v] for d, c, v in moves]
            for (d, c, v), x in zip(moves, vals): regs[d] = x
    return run

def type_size(m, t):
    return m.sizeof(t)

def enter(fr, blk):
    fr.prev = fr.cur.label; fr.cur = blk; fr.ins = blk.ins; fr.pc = 0

ICMP_CONC = {
    'eq': lambda a, b, w: a == b, 'ne': lambda a, b, w: a != b,
    'ugt': lambda a, b, w: a > b, 'uge': lambda a, b, w: a >= b, 'ult': lambda a, b, w: a < b, 'ule': lambda a, b, w: a <= b,
    'sgt': lambda a, b, w: sgn(a, w) > sgn(b, w), 'sge': lambda a, b, w: sgn(a, w) >= sgn(b, w),
    'slt': lambda a, b, w: sgn(a, w) < sgn(b, w), 'sle': lambda a, b, w: sgn(a, w) <= sgn(b, w)}
ICMP_SYM = {
    'eq': lambda a, b: a == b, 'ne': lambda a, b: a != b,
    'ugt': z3.UGT, 'uge': z3.UGE, 'ult': z3.ULT, 'ule': z3.ULE,
    'sgt': lambda a, b: a > b, 'sge': lambda a, b: a >= b, 'slt': lambda a, b: a < b, 'sle': lambda a, b: a <= b}
FCMP = {'oeq': lambda a, b: a == b, 'one': lambda a, b: a != b, 'ogt': lambda a, b: a > b, 'oge': lambda a, b: a >= b,
        'olt': lambda a, b: a < b, 'ole': lambda a, b: a <= b, 'ueq': lambda a, b: a == b, 'une': lambda a, b: a != b,
        'ugt': lambda a, b: a > b, 'uge': lambda a, b: a >= b, 'ult': lambda a, b: a < b, 'ule': lambda a, b: a <= b,
        'ord': lambda a, b: a == a and b == b, 'uno': lambda a, b: a != a or b != b}

def sym_binop(E, op, a, b, w, flags):
    if w == 1 and op in ('and', 'or', 'xor', 'add', 'sub'):
        x = to_bool(a); y = to_bool(b)
        if op == 'and': r = z3.And(x, y)
        elif op == 'or': r = z3.Or(x, y)
        else: r = z3.Xor(x, y)
        return norm(r)
    x = to_bv(a, w); y = to_bv(b, w)
    if op == 'add': r = x + y
    elif op == 'sub': r = x - y
    elif op == 'mul': r = x * y
    elif op == 'and': r = x & y
    elif op == 'or': r = x | y
    elif op == 'xor': r = x ^ y
    elif op == 'shl': r = x << y
    elif op == 'lshr': r = z3.LShR(x, y)
    elif op == 'ashr': r = x >> y
    elif op in ('udiv', 'urem', 'sdiv', 'srem'):
        if not z3.is_bv_value(y) and not E.merge_depth:
            # a symbolic divisor is enumerated (forks over its feasible values, capped): division by a variable does not bit-blast
            # within budget, and in this code base divisors are small counts (providers, buckets) already pinned by loop bounds
            yv = E.concretize(y, why='symbolic divisor')
            y = z3.BitVecVal(yv, w)
            if z3.is_bv_value(x): return binop_concrete(op, x.as_long(), yv, w) if yv != 0 else sym_binop(E, op, x, y, w, flags)
        zero = (y == z3.BitVecVal(0, w))
        if E.check(zero):
            E.violation('ub', 'division by zero possible', zero)
            E.add_pc(z3.Not(zero))
        if op == 'udiv': r = z3.UDiv(x, y)
        elif op == 'urem': r = z3.URem(x, y)
        elif op == 'sdiv': r = x / y
        else: r = z3.SRem(x, y)
    else: raise EngineError('sym binop ' + op)
    if flags and E.check_ub and not E.merge_depth:
        ub = None
        if op == 'add':
            if 'nsw' in flags: ub = z3.Not(z3.And(z3.BVAddNoOverflow(x, y, True), z3.BVAddNoUnderflow(x, y)))
            elif 'nuw' in flags: ub = z3.Not(z3.BVAddNoOverflow(x, y, False))
        elif op == 'sub':
            if 'nsw' in flags: ub = z3.Not(z3.And(z3.BVSubNoOverflow(x, y), z3.BVSubNoUnderflow(x, y, True)))
            elif 'nuw' in flags: ub = z3.Not(z3.BVSubNoUnderflow(x, y, False))
        elif op == 'mul':
            if 'nsw' in flags: ub = z3.Not(z3.And(z3.BVMulNoOverflow(x, y, True), z3.BVMulNoUnderflow(x, y)))
            elif 'nuw' in flags: ub = z3.Not(z3.BVMulNoOverflow(x, y, False))
        elif op in ('shl', 'lshr', 'ashr'):
            ub = z3.UGE(y, z3.BitVecVal(w, w))
        if ub is not None and USE_LIN and op in ('add', 'sub', 'mul') and w >= 32 and linarith.no_wrap(op, z3.simplify(x), z3.simplify(y), w, 'nsw' in flags):
            E.stats['ub_obligations'] += 1; E.stats['ub_by_bounds'] += 1
            ub = None
        if ub is not None:
            E.stats['ub_obligations'] += 1
            if E.check(ub):
                E.violation('ub', 'flagged arithmetic can overflow: %s %s i%d' % (op, ' '.join(flags), w), ub)
                E.add_pc(z3.Not(ub))
    return r

def conc_binop_checked(E, op, a, b, w, flags):
    if op in ('udiv', 'urem', 'sdiv', 'srem') and b == 0:
        E.violation('ub', 'division by zero'); raise PathEnd('error', 'div0')
    r = binop_concrete(op, a, b, w)
    if flags and E.check_ub:
        bad = False
        if op in ('add', 'sub', 'mul'):
            if 'nsw' in flags:
                x = sgn(a, w); y = sgn(b, w)
                t = x + y if op == 'add' else x - y if op == 'sub' else x * y
                bad = not (-(1 << (w - 1)) <= t < (1 << (w - 1)))
            if 'nuw' in flags and not bad:
                t = a + b if op == 'add' else a - b if op == 'sub' else a * b
                bad = not (0 <= t < (1 << w))
        elif op in ('shl', 'lshr', 'ashr'):
            bad = b >= w
        if bad:
            E.violation('ub', 'flagged arithmetic overflows: %s %s i%d (%d, %d)' % (op, ' '.join(flags), w, a, b))
    return r

def compile_ins(E, cf, m, slot, ins):
    op = ins.op
    O = lambda v: opnd(E, cf, m, slot, v)
    if op == 'nop': return None
    if op == 'bin':
        t = m.resolve(ins.t)
        d = slot(ins.res); ca, va = O(ins.a); cb, vb = O(ins.b); bop = ins.bop
        if t.k in ('double', 'float'):
            fl = t.k == 'float'
            def run_f(fr):
                regs = fr.regs
                a = va if ca else regs[va]; b = vb if cb else regs[vb]
                if not (isinstance(a, float) and isinstance(b, float)): raise EngineError('symbolic floating point')
                if bop == 'fadd': r = a + b
                elif bop == 'fsub': r = a - b
                elif bop == 'fmul': r = a * b
                elif bop == 'fdiv':
                    r = a / b if b != 0 else (float('nan') if a == 0 or a != a else float('inf') * (1 if (a > 0) == (str(b)[0] != '-') else -1))
                else: raise EngineError('float op ' + bop)
                if fl: r = struct.unpack('<f', struct.pack('<f', r))[0]
                regs[d] = r
            return run_f
        if t.k != 'int': raise EngineError('binop on ' + t.k)
        w = t.a; mask = (1 << w) - 1
        flags = tuple(f for f in ins.flags if f in ('nsw', 'nuw'))
        simple = {'add': lambda a, b: (a + b) & mask, 'sub': lambda a, b: (a - b) & mask, 'and': lambda a, b: a & b,
                  'or': lambda a, b: a | b, 'xor': lambda a, b: a ^ b, 'mul': lambda a, b: (a * b) & mask}.get(bop)
        if simple is not None and not flags:
            def run_s(fr):
                regs = fr.regs
                a = va if ca else regs[va]; b = vb if cb else regs[vb]
                if a.__class__ is int and b.__class__ is int: regs[d] = simple(a, b)
                else: regs[d] = norm(sym_binop(E, bop, a, b, w, flags))
            return run_s
        def run(fr):
            regs = fr.regs
            a = va if ca else regs[va]; b = vb if cb else regs[vb]
            if a.__class__ is int and b.__class__ is int: regs[d] = conc_binop_checked(E, bop, a, b, w, flags)
            else: regs[d] = norm(sym_binop(E, bop, a, b, w, flags))
        return run
    if op == 'fneg':
        d = slot(ins.res); ca, va = O(ins.a)
        def run(fr):
            regs = fr.regs; regs[d] = -(va if ca else regs[va])
        return run
    if op == 'icmp':
        t = m.resolve(ins.t); w = 64 if t.k == 'ptr' else t.a
        d = slot(ins.res); ca, va = O(ins.a); cb, vb = O(ins.b)
        fc = ICMP_CONC[ins.pred]; fs = ICMP_SYM[ins.pred]; pred_ = ins.pred
        def run(fr):
            regs = fr.regs
            a = va if ca else regs[va]; b = vb if cb else regs[vb]
            if a.__class__ is int and b.__class__ is int: regs[d] = 1 if fc(a, b, w) else 0
            else:
                x = to_bv(a, w); y = to_bv(b, w)
                r = linarith.narrow_cmp(pred_, z3.simplify(x), z3.simplify(y), w, E.stats) if (USE_LIN and w >= 32) else None
                regs[d] = norm(r if r is not None else fs(x, y))
        return run
    if op == 'fcmp':
        d = slot(ins.res); ca, va = O(ins.a); cb, vb = O(ins.b)
        pred = ins.pred
        def run(fr):
            regs = fr.regs
            a = va if ca else regs[va]; b = vb if cb else regs[vb]
            if not (isinstance(a, float) and isinstance(b, float)): raise EngineError('symbolic floating point compare')
            if pred == 'true': r = 1
            elif pred == 'false': r = 0
            else:
                nan = a != a or b != b
                if pred[0] == 'o': r = 0 if nan else int(FCMP[pred](a, b))
                else: r = 1 if nan else int(FCMP[pred](a, b))
                if pred == 'ord': r = int(not nan)
                if pred == 'uno': r = int(nan)
            regs[d] = r
        return run
    if op == 'cast':
        d = slot(ins.res); ca, va = O(ins.a); cop = ins.cop
        st = m.resolve(ins.st); dt = m.resolve(ins.t)
        sw = 64 if st.k == 'ptr' else (st.a if st.k == 'int' else None)
        dw = 64 if dt.k == 'ptr' else (dt.a if dt.k == 'int' else None)
        if cop in ('bitcast', 'addrspacecast'):
            if (st.k in ('double', 'float')) != (dt.k in ('double', 'float')):
                def run(fr):
                    regs = fr.regs; a = va if ca else regs[va]
                    if dt.k == 'double': regs[d] = struct.unpack('<d', struct.pack('<Q', a))[0]
                    elif dt.k == 'float': regs[d] = struct.unpack('<f', struct.pack('<I', a))[0]
                    elif st.k == 'double': regs[d] = struct.unpack('<Q', struct.pack('<d', a))[0]
                    else: regs[d] = struct.unpack('<I', struct.pack('<f', a))[0]
                return run
            def run(fr):
                regs = fr.regs; regs[d] = va if ca else regs[va]
            return run
        if cop in ('ptrtoint', 'inttoptr', 'zext', 'trunc'):
            dmask = (1 << dw) - 1
            def run(fr):
                regs = fr.regs; a = va if ca else regs[va]
                if a.__class__ is int: regs[d] = a & dmask
                elif z3.is_bool(a):
                    regs[d] = a if dw == 1 else z3.If(a, z3.BitVecVal(1, dw), z3.BitVecVal(0, dw))
                elif dw == sw: regs[d] = a
                elif dw > sw: regs[d] = z3.ZeroExt(dw - sw, a)
                elif dw == 1: regs[d] = norm(z3.Extract(0, 0, a) == z3.BitVecVal(1, 1))
                else: regs[d] = norm(z3.Extract(dw - 1, 0, a))
            return run
        if cop == 'sext':
            def run(fr):
                regs = fr.regs; a = va if ca else regs[va]
                if a.__class__ is int: regs[d] = sgn(a, sw) & ((1 << dw) - 1)
                elif z3.is_bool(a): regs[d] = z3.If(a, z3.BitVecVal((1 << dw) - 1, dw), z3.BitVecVal(0, dw))
                else: regs[d] = z3.SignExt(dw - sw, a)
            return run
        if cop in ('uitofp', 'sitofp'):
            def run(fr):
                regs = fr.regs; a = va if ca else regs[va]
                if a.__class__ is not int: raise EngineError('symbolic int->float conversion')
                r = float(sgn(a, sw) if cop == 'sitofp' else a)
                if dt.k == 'float': r = struct.unpack('<f', struct.pack('<f', r))[0]
                regs[d] = r
            return run
        if cop in ('fptoui', 'fptosi'):
            def run(fr):
                regs = fr.regs; a = va if ca else regs[va]
                if a != a or a in (float('inf'), float('-inf')):
                    E.violation('ub', 'float->int conversion of non-finite value'); regs[d] = 0; return
                regs[d] = int(a) & ((1 << dw) - 1)
            return run
        if cop in ('fpext', 'fptrunc'):
            def run(fr):
                regs = fr.regs; a = va if ca else regs[va]
                if dt.k == 'float': a = struct.unpack('<f', struct.pack('<f', a))[0]
                regs[d] = a
            return run
        raise EngineError('cast ' + cop)
    if op == 'alloca':
        d = slot(ins.res); esz = m.sizeof(ins.t)
        cn = O(ins.n) if ins.n is not None else (True, 1)
        nm = cf.name[:40] + ':%' + str(ins.res)
        def run(fr):
            n = cn[1] if cn[0] else fr.regs[cn[1]]
            if n.__class__ is not int: n = E.concretize(n, why='alloca count')
            o = E.alloc(esz * n, 'stack', nm)
            fr.allocas.append(o)
            fr.regs[d] = o.base
        return run
    if op == 'load':
        d = slot(ins.res); ca, va = O(ins.a); t = m.resolve(ins.t)
        return mk_load(E, m, t, d, ca, va)
    if op == 'store':
        cv, vv = O(ins.v); ca, va = O(ins.a); t = m.resolve(ins.t)
        return mk_store(E, m, t, cv, vv, ca, va)
    if op == 'gep':
        d = slot(ins.res); cb, vb = O(ins.base)
        const_off = 0; dyn = []
        t = ins.bt
        for n, iv in enumerate(ins.idx):
            c, v = O(iv); iw = m.resolve(iv.t).a
            if n == 0: scale = m.sizeof(t)
            else:
                t = m.resolve(t)
                if t.k == 'struct':
                    if not c: raise EngineError('dynamic struct index')
                    const_off += m.layout(t)[0][v]; t = t.a[v]; continue
                elif t.k in ('arr', 'vec'): scale = m.sizeof(t.b); t = t.b
                else: raise EngineError('gep into ' + t.k)
            if c: const_off += sgn(v, iw) * scale
            else: dyn.append((v, scale, iw))
        if not dyn:
            def run(fr):
                regs = fr.regs; b = vb if cb else regs[vb]
                if b.__class__ is int: regs[d] = (b + const_off) & M64
                else: regs[d] = b + z3.BitVecVal(const_off & M64, 64) if const_off else b
            return run
        def run(fr):
            regs = fr.regs; b = vb if cb else regs[vb]
            acc = const_off; symp = None
            for v, scale, iw in dyn:
                x = regs[v]
                if x.__class__ is int: acc += sgn(x, iw) * scale
                else:
                    x = to_bv(x, iw)
                    if iw < 64: x = z3.SignExt(64 - iw, x)
                    elif iw > 64: x = z3.Extract(63, 0, x)
                    x = x * z3.BitVecVal(scale, 64) if scale != 1 else x
                    symp = x if symp is None else symp + x
            if symp is None and b.__class__ is int: regs[d] = (b + acc) & M64
            else:
                r = to_bv(b, 64)
                if symp is not None: r = r + symp
                if acc & M64: r = r + z3.BitVecVal(acc & M64, 64)
                regs[d] = norm(r)
        return run
    if op == 'select':
        d = slot(ins.res); cc, vc = O(ins.c); ca, va = O(ins.a); cb, vb = O(ins.b)
        t = m.resolve(ins.t)
        w = 64 if t.k == 'ptr' else (t.a if t.k == 'int' else None)
        def run(fr):
            regs = fr.regs
            c = vc if cc else regs[vc]
            if c.__class__ is int:
                regs[d] = (va if ca else regs[va]) if c & 1 else (vb if cb else regs[vb]); return
            a = va if ca else regs[va]; b = vb if cb else regs[vb]
            if a.__class__ is int and b.__class__ is int and a == b: regs[d] = a; return
            if w is None:
                # aggregate / float: fork
                regs[d] = a if E.branch(to_bool(c)) else b; return
            if w == 1: regs[d] = norm(z3.If(to_bool(c), to_bool(a), to_bool(b)))
            else: regs[d] = norm(z3.If(to_bool(c), to_bv(a, w), to_bv(b, w)))
        return run
    if op == 'br':
        blk = cf.blocks[ins.dst]
        def run(fr):
            E.steps += 1
            fr.prev = fr.cur.label; fr.cur = blk; fr.ins = blk.ins; fr.pc = 0
            return True
        return run
    if op == 'condbr':
        cc, vc = O(ins.c); ba = cf.blocks[ins.a]; bb = cf.blocks[ins.b]
        def run(fr):
            E.steps += 1
            if E.steps > E.max_steps: raise PathEnd('budget', 'step budget exhausted')
            c = vc if cc else fr.regs[vc]
            if c.__class__ is not int: c = E.branch(to_bool(c))
            blk = ba if c else bb
            fr.prev = fr.cur.label; fr.cur = blk; fr.ins = blk.ins; fr.pc = 0
            return True
        return run
    if op == 'switch':
        cc, vc = O(ins.v); w = m.resolve(ins.t).a
        table = {}
        for cv, lbl in ins.cases: table[E.const_val(m, cv)] = cf.blocks[lbl]
        dflt = cf.blocks[ins.d]
        keys = list(table)
        def run(fr):
            E.steps += 1
            v = vc if cc else fr.regs[vc]
            if v.__class__ is int: blk = table.get(v, dflt)
            else:
                v = to_bv(v, w); blk = None
                for k in keys:
                    if E.branch(v == z3.BitVecVal(k, w)): blk = table[k]; break
                if blk is None: blk = dflt
            fr.prev = fr.cur.label; fr.cur = blk; fr.ins = blk.ins; fr.pc = 0
            return True
        return run
    if op == 'ret':
        if ins.v is None:
            def run(fr): return do_ret(E, fr, None)
            return run
        cv, vv = O(ins.v)
        def run(fr): return do_ret(E, fr, vv if cv else fr.regs[vv])
        return run
    if op == 'unreachable':
        def run(fr):
            E.violation('ub', 'reached unreachable in ' + cf.name); raise PathEnd('error', 'unreachable')
        return run
    if op in ('call', 'invoke'):
        return mk_call(E, cf, m, slot, ins)
    if op == 'landingpad':
        d = slot(ins.res)
        def run(fr):
            fr.regs[d] = list(E.lp_value)
        return run
    if op == 'resume':
        def run(fr):
            E.unwind(None, pop_first=True); return True
        return run
    if op == 'extractvalue':
        d = slot(ins.res); ca, va = O(ins.a); idx = ins.idx
        def run(fr):
            regs = fr.regs; a = va if ca else regs[va]
            for i in idx: a = a[i]
            regs[d] = a
        return run
    if op == 'insertvalue':
        d = slot(ins.res); ca, va = O(ins.a); ce, ve = O(ins.e); idx = ins.idx
        def cp(a, idx, e):
            a = list(a)
            if len(idx) == 1: a[idx[0]] = e
            else: a[idx[0]] = cp(a[idx[0]], idx[1:], e)
            return a
        def run(fr):
            regs = fr.regs; a = va if ca else regs[va]; e = ve if ce else regs[ve]
            regs[d] = cp(a, idx, e)
        return run
    if op == 'atomicrmw':
        d = slot(ins.res) if ins.res else None; ca, va = O(ins.a); cv, vv = O(ins.v); t = m.resolve(ins.t); n = m.sizeof(t); w = t.a; rop = ins.rop
        def run(fr):
            regs = fr.regs; a = va if ca else regs[va]; v = vv if cv else regs[vv]
            old = E.load(a, n)
            if rop == 'xchg': new = v
            elif old.__class__ is int and v.__class__ is int: new = binop_concrete(rop, old, v, w)
            else: new = sym_binop(E, rop, old, v, w, ())
            E.store(a, n, new)
            if d is not None: regs[d] = old
        return run
    if op == 'cmpxchg':
        d = slot(ins.res); ca, va = O(ins.a); cc, vc = O(ins.c); cn, vn = O(ins.n); t = m.resolve(ins.t); n = m.sizeof(t)
        def run(fr):
            regs = fr.regs; a = va if ca else regs[va]; c = vc if cc else regs[vc]; nw = vn if cn else regs[vn]
            old = E.load(a, n)
            if old.__class__ is int and c.__class__ is int: eq = old == c
            else: eq = E.branch(to_bv(old, 8 * n) == to_bv(c, 8 * n))
            if eq: E.store(a, n, nw)
            regs[d] = [old, 1 if eq else 0]
        return run
    raise EngineError('unsupported instruction ' + op)

def mk_load(E, m, t, d, ca, va):
    k = t.k
    if k == 'int' or k == 'ptr':
        n = 8 if k == 'ptr' else m.sizeof(t); w = 64 if k == 'ptr' else t.a
        exact = (w == 8 * n)
        def run(fr):
            regs = fr.regs; a = va if ca else regs[va]
            v = E.load(a, n)
            if exact: regs[d] = v
            elif v.__class__ is int: regs[d] = v & ((1 << w) - 1)
            elif w == 1: regs[d] = norm(z3.Extract(0, 0, v) == z3.BitVecVal(1, 1))
            else: regs[d] = z3.Extract(w - 1, 0, v)
        return run
    if k in ('double', 'float'):
        n = 8 if k == 'double' else 4; fmt = '<d' if k == 'double' else '<f'
        def run(fr):
            regs = fr.regs; a = va if ca else regs[va]
            v = E.load(a, n)
            if v.__class__ is not int: raise EngineError('symbolic bytes loaded as floating point')
            regs[d] = struct.unpack(fmt, v.to_bytes(n, 'little'))[0]
        return run
    if k in ('struct', 'arr'):
        def ld(a, t):
            t = m.resolve(t)
            if t.k == 'struct':
                offs = m.layout(t)[0]
                return [ld(a + o if a.__class__ is int else a + z3.BitVecVal(o, 64), f) for o, f in zip(offs, t.a)]
            if t.k == 'arr':
                es = m.sizeof(t.b)
                return [ld(a + i * es if a.__class__ is int else a + z3.BitVecVal(i * es, 64), t.b) for i in range(t.a)]
            if t.k in ('double', 'float'):
                n = m.sizeof(t); v = E.load(a, n)
                return struct.unpack('<d' if n == 8 else '<f', v.to_bytes(n, 'little'))[0]
            n = m.sizeof(t); v = E.load(a, n)
            return v
        def run(fr):
            regs = fr.regs; regs[d] = ld(va if ca else regs[va], t)
        return run
    raise EngineError('load of ' + k)

def mk_store(E, m, t, cv, vv, ca, va):
    k = t.k
    if k == 'int' or k == 'ptr':
        n = 8 if k == 'ptr' else m.sizeof(t); w = 64 if k == 'ptr' else t.a
        def run(fr):
            regs = fr.regs; a = va if ca else regs[va]; v = vv if cv else regs[vv]
            if v.__class__ is not int:
                if z3.is_bool(v): v = z3.If(v, z3.BitVecVal(1, 8 * n), z3.BitVecVal(0, 8 * n))
                elif w != 8 * n: v = z3.ZeroExt(8 * n - w, v)
            E.store(a, n, v)
        return run
    if k in ('double', 'float'):
        n = 8 if k == 'double' else 4; fmt = '<d' if k == 'double' else '<f'
        def run(fr):
            regs = fr.regs; a = va if ca else regs[va]; v = vv if cv else regs[vv]
            E.store(a, n, int.from_bytes(struct.pack(fmt, v), 'little'))
        return run
    if k in ('struct', 'arr'):
        def stv(a, t, v):
            t = m.resolve(t)
            if t.k == 'struct':
                offs = m.layout(t)[0]
                for o, f, x in zip(offs, t.a, v): stv(a + o, f, x)
            elif t.k == 'arr':
                es = m.sizeof(t.b)
                for i, x in enumerate(v): stv(a + i * es, t.b, x)
            elif t.k in ('double', 'float'):
                n = m.sizeof(t); E.store(a, n, int.from_bytes(struct.pack('<d' if n == 8 else '<f', v), 'little'))
            else:
                n = m.sizeof(t)
                if v.__class__ is not int and z3.is_bool(v): v = to_bv(v, 8 * n)
                E.store(a, n, v)
        def run(fr):
            regs = fr.regs; a = va if ca else regs[va]
            if a.__class__ is not int: raise EngineError('aggregate store to symbolic address')
            stv(a, t, vv if cv else regs[vv])
        return run
    raise EngineError('store of ' + k)

# =========================================================================== calls, returns, unwinding
class NestedUncaught(Exception):
    pass

def pop_frame(E, fr):
    for o in fr.allocas: o.alive = False
    E.frames.pop()

def do_ret(E, fr, val):
    E.steps += 1
    pop_frame(E, fr)
    frames = E.frames
    if len(frames) <= E.run_floor:
        E.retval = val
        return True
    caller = frames[-1]
    if fr.retslot is not None: caller.regs[fr.retslot] = val
    if fr.normal_to is not None:
        blk = fr.normal_to
        caller.prev = caller.cur.label; caller.cur = blk; caller.ins = blk.ins; caller.pc = 0
    return True

def push_call(E, cf, args, retslot, normal_to, unwind_to):
    if E.depth_limit and len(E.frames) > E.depth_limit:
        E.depth_limit = 0
        E.violation('assert', 'recursion depth exceeds the bound declared by the harness (call depth grows with input nesting)')
        raise PathEnd('error', 'depth limit')
    if len(E.frames) > 600 and not E.depth_limit: raise PathEnd('budget', 'call depth > 600')
    fr = Frame()
    fr.fn = cf; fr.regs = regs = [None] * cf.nregs
    if len(args) != len(cf.pslots) and not (cf.vararg and len(args) >= len(cf.pslots)): raise EngineError('arity mismatch calling ' + cf.name)
    for sl, a, bv in zip(cf.pslots, args, cf.byval):
        if bv is not None:
            o = E.alloc(bv, 'stack', 'byval'); fr.allocas.append(o)
            E.memcpy(o.base, a, bv); a = o.base
        regs[sl] = a
    blk = cf.entry
    fr.cur = blk; fr.ins = blk.ins; fr.pc = 0
    fr.retslot = retslot; fr.normal_to = normal_to; fr.unwind_to = unwind_to
    E.frames.append(fr)
    E.stats['calls'] += 1
    return fr

def glob_names(v, out):
    if v is None: return
    if v.k == 'glob': out.append(v.a)
    elif v.k == 'agg':
        for e in v.a: glob_names(e, out)
    elif v.k == 'ccast': glob_names(v.a[1], out)
    elif v.k == 'cgep': glob_names(v.a[1], out)

def ti_bases(E, name):
    g = E.globals.get(name)
    if g is not None and g[1] is not None:
        out = []; glob_names(g[1], out)
        return [n for n in out if n.startswith('_ZTI') and n != name]
    b = irparse.STD_BASES.get(name)
    return [b] if b else []

def ti_matches(E, thrown, catch):
    if catch == 0 or thrown == catch: return True
    tn = E.addr_name(thrown)
    seen = set(); st = [tn]
    cn = E.addr_name(catch)
    while st:
        n = st.pop()
        if n in seen or n is None: continue
        seen.add(n)
        if n == cn: return True
        st.extend(ti_bases(E, n))
    return False

def addr_name(E, a):
    i = bisect.bisect_right(E.gbases, a) - 1
    if i >= 0 and E.gbases[i] == a: return E.gnames[i]
    return E.addr_func.get(a)
Engine.addr_name = addr_name

def lp_select(E, cf, lpad, ti):
    """-> selector or None (do not enter)"""
    for kind, v in lpad.clauses:
        if kind == 'catch':
            c = E.const_val(cf.mod, v)
            if ti_matches(E, ti, c): return (c & 0x7fffffff) if c else 0x7ffffff0
    if lpad.cleanup: return 0
    return None

def unwind(E, site, pop_first=False):
    """propagate E.exc = (ptr, typeinfo addr). site: CBlock (landing pad of the call site in the top frame) or None"""
    frames = E.frames
    ptr, ti = E.exc
    if pop_first:
        fr = frames[-1]; site = fr.unwind_to; pop_frame(E, fr)
    while True:
        if len(frames) <= E.unwind_floor:
            if E.unwind_floor: raise NestedUncaught()
            raise PathEnd('uncaught', E.addr_name(ti) or hex(ti))
        fr = frames[-1]
        if site is not None:
            sel = lp_select(E, fr.fn, site.lpad, ti)
            if sel is not None:
                E.lp_value = (ptr, sel)
                fr.prev = fr.cur.label; fr.cur = site; fr.ins = site.ins; fr.pc = 0
                E.stats['unwinds'] += 1
                return
        site = fr.unwind_to
        pop_frame(E, fr)
Engine.unwind = unwind

def throw(E, ptr, ti):
    E.exc = (ptr, ti)
    raise Thrown()
Engine.throw = throw

SKIP_CALLS = re.compile(r'^llvm\.(dbg\.|lifetime\.|assume|experimental\.noalias|invariant\.|donothing|prefetch|var\.annotation)')

def ret_width(m, t):
    t = m.resolve(t)
    if t.k == 'int': return t.a
    if t.k == 'ptr': return 64
    return None

def mk_call(E, cf, m, slot, ins):
    callee = ins.callee
    static_name = callee.a if callee.k == 'glob' else None
    if static_name and SKIP_CALLS.match(static_name): return None
    d = slot(ins.res) if ins.res is not None else None
    ccal = opnd(E, cf, m, slot, callee) if static_name is None else None
    argops = [opnd(E, cf, m, slot, a) if a is not None else (True, None) for a in ins.args]
    is_invoke = ins.op == 'invoke'
    normal = cf.blocks[ins.normal] if is_invoke else None
    uw = cf.blocks[ins.unwind] if is_invoke else None
    rw = ret_width(m, ins.t)
    cache = {}
    def resolve(name):
        r = cache.get(name)
        if r is None:
            name = E.redirect.get(name, name)
            if name in E.models: r = ('model', E.models[name])
            elif name in E.funcs:
                mg = any(x.search(name) for x in E.merge_res) and rw is not None
                r = ('merge' if mg else 'ir', cfn_for(E, name))
            else:
                mm = E.model_by_pattern(name)
                if mm is None: raise EngineError('unmodelled external function: ' + name)
                r = ('model', mm)
            cache[name] = r
        return r
    def run(fr):
        regs = fr.regs
        if static_name is not None: name = static_name
        else:
            a = regs[ccal[1]] if not ccal[0] else ccal[1]
            if a.__class__ is not int: a = E.concretize(a, why='indirect call target')
            name = E.addr_func.get(a)
            if name is None:
                E.violation('memory', 'indirect call to non-function address 0x%x' % a); raise PathEnd('error', 'bad call')
        kind, target = resolve(name)
        args = [v if c else regs[v] for c, v in argops]
        if kind == 'merge' and not E.no_merge:
            r = merged_call(E, target, args, rw)
            if r is not None:
                if d is not None: regs[d] = r[0]
                if is_invoke:
                    fr.prev = fr.cur.label; fr.cur = normal; fr.ins = normal.ins; fr.pc = 0
                    return True
                return None
            kind = 'ir'
        if kind == 'model':
            try:
                r = target(E, fr, args)
            except Thrown:
                unwind(E, uw)
                return True
            if d is not None: regs[d] = r
            if is_invoke:
                fr.prev = fr.cur.label; fr.cur = normal; fr.ins = normal.ins; fr.pc = 0
                return True
            return None
        push_call(E, target, args, d, normal, uw)
        return True
    return run

def merged_call(E, cf, args, rw):
    """summarise a pure call: explore all callee paths, join the results with If.
    returns (value,) or None (not mergeable -> ordinary call)"""
    outer = (E.trace, E.pos, E.unwind_floor, E.run_floor, E.exc, list(E.caught))
    if E.merge_depth == 0: E.merge_floor_addr = E.next_addr
    nd = len(E.dbases); na = E.next_addr; npc = len(E.pc); base = len(E.frames)
    E.merge_depth += 1
    local = []
    outcomes = []
    ok = True
    E.stats['merged_calls'] += 1
    try:
        while True:
            E.trace = local; E.pos = 0
            E.unwind_floor = base; E.run_floor = base
            E.solver.push()
            try:
                push_call(E, cf, args, None, None, None)
                E.run(base)
                outcomes.append(('ret', list(E.pc[npc:]), E.retval))
            except NestedUncaught:
                outcomes.append(('throw', list(E.pc[npc:]), None))
            except PathEnd as pe:
                if pe.kind != 'infeasible': ok = False
            except MergeAbort:
                ok = False
            finally:
                del E.frames[base:]; del E.pc[npc:]
                E.solver.pop()
                del E.dbases[nd:]; del E.dobjs[nd:]; E.next_addr = na
            if not ok: break
            while local and local[-1].idx + 1 >= len(local[-1].alts): local.pop()
            if not local: break
            local[-1].idx += 1
            if len(outcomes) > 4096: ok = False; break
    finally:
        E.merge_depth -= 1
        E.trace, E.pos, E.unwind_floor, E.run_floor, E.exc, E.caught = outer
    if not ok or not outcomes:
        E.stats['merge_aborts'] += 1
        return None
    rets = [(c, v) for k, c, v in outcomes if k == 'ret']
    throws = [c for k, c, v in outcomes if k == 'throw']
    def conj(cs): return z3.And(*cs) if len(cs) > 1 else (cs[0] if cs else z3.BoolVal(True))
    if throws:
        alts = (['ret'] if rets else []) + [('throw', i) for i in range(len(throws))]
        ch = E.decide(lambda: alts, 'merged-call outcome')
        if ch != 'ret':
            E.add_pc(conj(throws[ch[1]]))
            return None
        E.add_pc(z3.Or(*[conj(c) for c, v in rets]) if len(rets) > 1 else conj(rets[0][0]))
    if not rets: return None
    acc = rets[-1][1]
    isb = rw == 1
    for c, v in reversed(rets[:-1]):
        if v.__class__ is int and acc.__class__ is int and v == acc: continue
        if isb: acc = z3.If(conj(c), to_bool(v), to_bool(acc))
        else: acc = z3.If(conj(c), to_bv(v, rw), to_bv(acc, rw))
    return (norm(acc),)

def run(E, base):
    frames = E.frames
    while len(frames) > base:
        fr = frames[-1]
        ins = fr.ins
        while True:
            pc = fr.pc; fr.pc = pc + 1
            if ins[pc](fr): break
Engine.run = run

def model_by_pattern(E, name):
    for rx, f in E.model_patterns:
        if rx.search(name): return f
    return None
Engine.model_by_pattern = model_by_pattern

# =========================================================================== exploration driver
class PathResult:
    __slots__ = ('status', 'info', 'violations', 'observed', 'model', 'ndec', 'steps', 'reached')

def run_path(E, entry, args):
    E.reset_path()
    E.run_floor = 0; E.no_merge = False
    res = PathResult(); res.violations = []; res.model = None; res.observed = None; res.reached = []
    try:
        cf = cfn_for(E, entry)
        push_call(E, cf, args, None, None, None)
        E.run(0)
        res.status = 'ok'; res.info = E.retval
    except PathEnd as pe:
        res.status = pe.kind; res.info = pe.info
    res.violations = E.path_viol
    res.steps = E.steps
    if res.status in ('ok', 'uncaught'):
        # sample model of this path (for native validation)
        if E.check():
            mdl = E.model()
            res.model = E.model_values(mdl)
            res.observed = [(t, v if isinstance(v, int) else mdl.eval(to_bv(v, 64), model_completion=True).as_long()) for t, v in E.observed]
        else:
            res.status = 'infeasible'
    return res

def explore(E, entry, args, max_paths=100000, on_path=None, deadline=None):
    E.trace = []
    E.reached = {}
    out = []
    n = 0
    while True:
        r = run_path(E, entry, args)
        n += 1
        if on_path: on_path(r)
        else: out.append(r)
        while E.trace and E.trace[-1].idx + 1 >= len(E.trace[-1].alts): E.trace.pop()
        if not E.trace: break
        E.trace[-1].idx += 1
        if n >= max_paths: raise EngineError('path cap %d exceeded' % max_paths)
        if deadline and time.time() > deadline: raise EngineError('time budget exceeded after %d paths' % n)
    return out

def set_redirects(E, redirect):
    """redirect: {pattern: target function name}. pattern is a regex that must match exactly one defined function name."""
    redirect = dict(redirect or {})
    if redirect.pop('__all_or_nothing__', False):
        # abstraction of a pair (real kernel, reference kernel) by one uninterpreted function: if the real kernel no longer exists under
        # this name (refactored), run without the abstraction (both sides fully symbolic) rather than abstracting one side only
        for pat in redirect:
            rx = re.compile(pat.lstrip('?'))
            if not any(rx.search(n) for n in list(E.funcs) + list(E.decls)):
                E.redirect.clear(); return
    for pat, target in redirect.items():
        optional = pat.startswith('?')            # '?pattern': redirect only if the function exists in this build of the unit
        rx = re.compile(pat[1:] if optional else pat)
        hits = [n for n in list(E.funcs) + list(E.decls) if rx.search(n)]
        if optional and not hits: continue
        if len(hits) != 1: raise EngineError('redirect pattern %r matches %d functions: %s' % (pat, len(hits), hits[:5]))
        if target not in E.funcs and target not in E.models: raise EngineError('redirect target %s not defined' % target)
        E.redirect[hits[0]] = target

def run_ctors(E):
    g = E.globals.get('llvm.global_ctors')
    E.trace = []
    E.reset_path(); E.run_floor = 0; E.no_merge = True
    if g is not None and g[1] is not None and g[1].k == 'agg':
        for ent in g[1].a:
            fnv = ent.a[1]
            names = []; glob_names(fnv, names)
            for nme in names:
                if nme in E.funcs:
                    push_call(E, cfn_for(E, nme), [], None, None, None)
                    E.run(0)
    if E.syms or E.trace: raise EngineError('global constructors are not concrete')
    E.take_snapshot()

def load_modules(paths):
    """several IR modules form one program; private/internal symbols are module-local, so they are renamed per module
    (e.g. @.str.5 of two units must not be merged)"""
    mods = []
    for idx, p in enumerate(paths):
        txt = open(p).read()
        if len(paths) > 1:
            local = set(re.findall(r'^@("[^"]+"|[\w.$-]+)\s*=\s*(?:private|internal)\b', txt, re.M))
            local |= set(re.findall(r'^define\s+(?:private|internal)\b[^@\n]*@("[^"]+"|[\w.$-]+)\s*\(', txt, re.M))
            if local:
                def ren(mm):
                    n = mm.group(1)
                    if n not in local: return mm.group(0)
                    return '@"%s.m%d"' % (n.strip('"'), idx) if n.startswith('"') else '@%s.m%d' % (n, idx)
                txt = re.sub(r'@("[^"]+"|[\w.$-]+)', ren, txt)
        mods.append(irparse.parse_module(txt))
    return mods

import models
