"""Sound narrowing of wide linear bit-vector comparisons (Engine S).

Time arithmetic in the code under test is 64-bit: now + seconds * 10^9 compared with other sums. The variables behind it are
narrow (a harness TTL of a few bits, a clock advance of a few bits), but a bit-blaster still sees 64-bit multipliers and adders
and stalls on the cancellation a*x + b <= a*x + c. This module recognises terms of the form

        c0 + sum_i c_i * leaf_i          (leaf_i = zero/sign-extension of a narrow term, or any term of width < 64)

computes exact integer bounds from the leaf widths, and - only when the bounds prove that neither side can wrap - rewrites the
comparison over the integers, divides by the gcd of the coefficients, and re-encodes it in the smallest sufficient width.
Every step is an equivalence under the proven no-wrap condition; when anything is not recognised the original term is kept.
The same bounds discharge nsw/nuw obligations without a solver call."""
import math
import z3

MAXW = 64

class Lin:
    __slots__ = ('c0', 'terms', 'lo', 'hi')   # value = c0 + sum coeff * leaf ; terms: {key: (leaf, coeff, llo, lhi)}
    def __init__(s, c0=0, terms=None):
        s.c0 = c0; s.terms = terms or {}
        s.bounds()
    def bounds(s):
        lo = hi = s.c0
        for leaf, c, llo, lhi in s.terms.values():
            if c >= 0: lo += c * llo; hi += c * lhi
            else: lo += c * lhi; hi += c * llo
        s.lo = lo; s.hi = hi

def _add(a, b, sign=1):
    t = dict(a.terms)
    for k, (leaf, c, llo, lhi) in b.terms.items():
        if k in t:
            nc = t[k][1] + sign * c
            if nc == 0: del t[k]
            else: t[k] = (leaf, nc, llo, lhi)
        else: t[k] = (leaf, sign * c, llo, lhi)
    return Lin(a.c0 + sign * b.c0, t)

def _scale(a, k):
    if k == 0: return Lin(0)
    return Lin(a.c0 * k, {key: (leaf, c * k, llo, lhi) for key, (leaf, c, llo, lhi) in a.terms.items()})

def _signed(v, w):
    return v - (1 << w) if v >> (w - 1) else v

def _leaf(x, signed, depth):
    """linear form of the zero/sign extension of the narrower term x: x's own linear form when that provably does not wrap at
    x's width (so that nested extensions such as zext64(1 + zext32(v8)) keep the tight bounds of v8), else an opaque leaf"""
    xw = x.size()
    if xw >= 2 and not z3.is_bv_value(x):
        inner = lin(x, xw, depth + 1)
        if inner is not None and inner.terms:
            if signed and -(1 << (xw - 1)) <= inner.lo and inner.hi < (1 << (xw - 1)): return inner
            if not signed and 0 <= inner.lo and inner.hi < (1 << xw): return inner
    if signed: return Lin(0, {('s', x.get_id()): (x, 1, -(1 << (xw - 1)), (1 << (xw - 1)) - 1)})
    return Lin(0, {('z', x.get_id()): (x, 1, 0, (1 << xw) - 1)})

def lin(e, w, depth=0):
    """linear form of the w-bit term e over the INTEGERS (i.e. the value e would have if no operation wrapped), or None.
    The caller must check that [lo, hi] fits the interpretation it needs; intermediate wrapping is harmless as long as the
    final integer value is in range, because +,-,* by constants are ring homomorphisms Z -> Z/2^w."""
    if depth > 60: return None
    if z3.is_bv_value(e):
        return Lin(_signed(e.as_long(), w))
    k = e.decl().kind()
    ch = e.children()
    if k == z3.Z3_OP_BADD:
        acc = Lin(0)
        for c in ch:
            l = lin(c, w, depth + 1)
            if l is None: return None
            acc = _add(acc, l)
        return acc
    if k == z3.Z3_OP_BSUB:
        acc = lin(ch[0], w, depth + 1)
        if acc is None: return None
        for c in ch[1:]:
            l = lin(c, w, depth + 1)
            if l is None: return None
            acc = _add(acc, l, -1)
        return acc
    if k == z3.Z3_OP_BNEG:
        l = lin(ch[0], w, depth + 1)
        return None if l is None else _scale(l, -1)
    if k == z3.Z3_OP_BMUL:
        consts = [c for c in ch if z3.is_bv_value(c)]
        rest = [c for c in ch if not z3.is_bv_value(c)]
        if len(rest) != 1: return None
        kk = 1
        for c in consts: kk *= _signed(c.as_long(), w)
        l = lin(rest[0], w, depth + 1)
        return None if l is None else _scale(l, kk)
    if k in (z3.Z3_OP_BSDIV, z3.Z3_OP_BSDIV_I, z3.Z3_OP_BUDIV, z3.Z3_OP_BUDIV_I) and z3.is_bv_value(ch[1]):
        # exact division: every coefficient and the constant are multiples of the divisor and the dividend provably does not wrap,
        # so x = C*y over the integers and x / C = y (no rounding involved)
        signed = k in (z3.Z3_OP_BSDIV, z3.Z3_OP_BSDIV_I)
        C = _signed(ch[1].as_long(), w) if signed else ch[1].as_long()
        l = lin(ch[0], w, depth + 1)
        if l is None or C <= 0: return None
        lo_lim, hi_lim = (-(1 << (w - 1)), (1 << (w - 1)) - 1) if signed else (0, (1 << w) - 1)
        if not (lo_lim <= l.lo and l.hi <= hi_lim): return None
        if l.c0 % C != 0 or any(c % C != 0 for leaf, c, llo, lhi in l.terms.values()): return None
        return Lin(l.c0 // C, {key: (leaf, c // C, llo, lhi) for key, (leaf, c, llo, lhi) in l.terms.items()})
    if k == z3.Z3_OP_BSHL and z3.is_bv_value(ch[1]) and ch[1].as_long() < w:
        l = lin(ch[0], w, depth + 1)
        return None if l is None else _scale(l, 1 << ch[1].as_long())
    if k == z3.Z3_OP_CONCAT:
        nconst = 0
        while nconst < len(ch) - 1 and z3.is_bv_value(ch[nconst]): nconst += 1
        hi = ch[:nconst]; rest = ch[nconst:]
        rw = sum(c.size() for c in rest)
        x = None
        if len(rest) == 1: x = rest[0]
        else:
            # concat(extract(rw-1, k, X), <low k bits of X, simplified separately>) == X   (left behind by z3's simplifier)
            r0 = rest[0]
            if r0.decl().kind() == z3.Z3_OP_EXTRACT and r0.params()[0] == rw - 1 and r0.children()[0].size() == rw:
                X = r0.children()[0]; kbits = r0.params()[1]
                low = rest[1] if len(rest) == 2 else z3.Concat(*rest[1:])
                if kbits > 0 and low.size() == kbits and z3.simplify(z3.Extract(kbits - 1, 0, X)).get_id() == z3.simplify(low).get_id(): x = X
        if x is not None:
            xw = x.size()
            if not hi:
                return lin(x, w, depth + 1) if (xw == w and x.get_id() != e.get_id()) else None
            hv = 0
            for c in hi: hv = (hv << c.size()) | c.as_long()
            hv = _signed(hv, w - xw)
            if z3.is_bv_value(x): return Lin((hv << xw) + x.as_long())
            return _add(Lin(hv << xw), _leaf(x, False, depth))
        # sign extension as z3 prints it after simplification: the top bit of x repeated, then x
        x = ch[-1]; xw = x.size(); hi = ch[:-1]
        def is_top_bit(c):
            return c.decl().kind() == z3.Z3_OP_EXTRACT and c.size() == 1 and c.params()[0] == xw - 1 and c.children()[0].get_id() == x.get_id()
        if hi and all(is_top_bit(c) for c in hi):
            return _leaf(x, True, depth)
        return None
    if k == z3.Z3_OP_ZERO_EXT: return _leaf(ch[0], False, depth)
    if k == z3.Z3_OP_SIGN_EXT: return _leaf(ch[0], True, depth)
    return None

MAXCASES = 8
def cases(e, w, depth=0):
    """[(condition or None, Lin)] - the linear forms of e under the (mutually exclusive, exhaustive) conditions of the if-then-else
    terms it contains; None when e is not piecewise linear or has more than MAXCASES pieces"""
    if depth > 60: return None
    l = lin(e, w, depth)
    if l is not None: return [(None, l)]
    if z3.is_bv_value(e): return None
    k = e.decl().kind(); ch = e.children()
    def conj(a, b): return b if a is None else (a if b is None else z3.And(a, b))
    if k == z3.Z3_OP_ITE:
        a = cases(ch[1], w, depth + 1); b = cases(ch[2], w, depth + 1) if a is not None else None
        if a is None or b is None or len(a) + len(b) > MAXCASES: return None
        return [(conj(ch[0], c), l) for c, l in a] + [(conj(z3.Not(ch[0]), c), l) for c, l in b]
    if k == z3.Z3_OP_CONCAT:
        # z3's simplifier pushes if-then-else below concat: concat(ite(c,a1,b1), ite(c,a2,b2), ..) - reassemble ite(c, concat(a..), concat(b..))
        cond = None
        for c in ch:
            if c.decl().kind() == z3.Z3_OP_ITE:
                if cond is None: cond = c.children()[0]
                elif cond.get_id() != c.children()[0].get_id(): return None
        if cond is None: return None
        th = [c.children()[1] if c.decl().kind() == z3.Z3_OP_ITE else c for c in ch]
        el = [c.children()[2] if c.decl().kind() == z3.Z3_OP_ITE else c for c in ch]
        a = cases(z3.simplify(z3.Concat(*th)), w, depth + 1)
        b = cases(z3.simplify(z3.Concat(*el)), w, depth + 1) if a is not None else None
        if a is None or b is None or len(a) + len(b) > MAXCASES: return None
        return [(conj(cond, c), l) for c, l in a] + [(conj(z3.Not(cond), c), l) for c, l in b]
    if k in (z3.Z3_OP_BADD, z3.Z3_OP_BSUB):
        acc = [(None, Lin(0))]
        for i, c in enumerate(ch):
            cs = cases(c, w, depth + 1)
            if cs is None or len(acc) * len(cs) > MAXCASES: return None
            sign = -1 if (k == z3.Z3_OP_BSUB and i > 0) else 1
            acc = [(conj(c1, c2), _add(l1, l2, sign)) for c1, l1 in acc for c2, l2 in cs]
        return acc
    if k == z3.Z3_OP_BNEG:
        cs = cases(ch[0], w, depth + 1)
        return None if cs is None else [(c, _scale(l, -1)) for c, l in cs]
    if k == z3.Z3_OP_BMUL:
        consts = [c for c in ch if z3.is_bv_value(c)]; rest = [c for c in ch if not z3.is_bv_value(c)]
        if len(rest) != 1: return None
        kk = 1
        for c in consts: kk *= _signed(c.as_long(), w)
        cs = cases(rest[0], w, depth + 1)
        return None if cs is None else [(c, _scale(l, kk)) for c, l in cs]
    return None

def _width_for(lo, hi):
    n = 1
    while not (-(1 << (n - 1)) <= lo and hi <= (1 << (n - 1)) - 1): n += 1
    return n

def _encode(l, w):
    """the integer value of l as a w-bit signed term (caller guarantees the range fits)"""
    acc = None
    for key, (leaf, c, llo, lhi) in l.terms.items():
        xw = leaf.size()
        if xw > w: return None
        x = leaf if xw == w else (z3.ZeroExt(w - xw, leaf) if key[0] == 'z' else z3.SignExt(w - xw, leaf))
        t = x if c == 1 else x * z3.BitVecVal(c % (1 << w), w)
        acc = t if acc is None else acc + t
    cst = z3.BitVecVal(l.c0 % (1 << w), w)
    return cst if acc is None else (acc + cst if l.c0 else acc)

SIGNED = {'slt', 'sle', 'sgt', 'sge'}
def narrow_cmp(pred, a, b, w, stats=None):
    """equivalent (narrower) form of icmp pred a, b for w-bit a, b - or None when not applicable"""
    if w < 32: return None
    ca = cases(a, w); cb = cases(b, w) if ca is not None else None
    if ca is None or cb is None or len(ca) * len(cb) > MAXCASES: return None
    if len(ca) == 1 and len(cb) == 1:
        return _narrow_lin(pred, ca[0][1], cb[0][1], w, stats)
    out = []
    for c1, l1 in ca:
        for c2, l2 in cb:
            r = _narrow_lin(pred, l1, l2, w, stats)
            if r is None: return None
            conds = [c for c in (c1, c2) if c is not None]
            out.append(z3.And(*(conds + [r])) if conds else r)
    return z3.Or(*out)      # the case conditions are exhaustive and mutually exclusive

def _narrow_lin(pred, la, lb, w, stats=None):
    if not la.terms and not lb.terms:
        v = la.c0 - lb.c0
        if pred in SIGNED or pred in ('eq', 'ne'):
            return z3.BoolVal({'eq': v == 0, 'ne': v != 0, 'slt': v < 0, 'sle': v <= 0, 'sgt': v > 0, 'sge': v >= 0}[pred]) if -(1 << (w - 1)) <= min(la.c0, lb.c0) and max(la.c0, lb.c0) < (1 << (w - 1)) else None
        return None
    lim_lo, lim_hi = (-(1 << (w - 1)), (1 << (w - 1)) - 1)
    if pred in SIGNED or pred in ('eq', 'ne'):
        ok = lim_lo <= la.lo and la.hi <= lim_hi and lim_lo <= lb.lo and lb.hi <= lim_hi
        if not ok and pred in ('eq', 'ne'):
            ok = 0 <= la.lo and la.hi < (1 << w) and 0 <= lb.lo and lb.hi < (1 << w)
    else:
        ok = 0 <= la.lo and la.hi < (1 << w) and 0 <= lb.lo and lb.hi < (1 << w)
        if not ok:   # both non-negative as signed values also compares the same unsigned
            ok = 0 <= la.lo and la.hi <= lim_hi and 0 <= lb.lo and lb.hi <= lim_hi
    if not ok: return None
    d = _add(la, lb, -1)                        # a - b over the integers
    if not d.terms:
        v = d.c0
        r = {'eq': v == 0, 'ne': v != 0, 'slt': v < 0, 'ult': v < 0, 'sle': v <= 0, 'ule': v <= 0, 'sgt': v > 0, 'ugt': v > 0, 'sge': v >= 0, 'uge': v >= 0}[pred]
        return z3.BoolVal(r)
    g = 0
    for leaf, c, llo, lhi in d.terms.values(): g = math.gcd(g, abs(c))
    s = Lin(0, {k: (leaf, c // g, llo, lhi) for k, (leaf, c, llo, lhi) in d.terms.items()})   # a - b = g*S + c0
    c0 = d.c0
    # g*S + c0 OP 0
    p = {'ult': 'slt', 'ule': 'sle', 'ugt': 'sgt', 'uge': 'sge'}.get(pred, pred)
    if p in ('eq', 'ne'):
        if c0 % g != 0: return z3.BoolVal(p == 'ne')
        k = -c0 // g
        if k < s.lo or k > s.hi: return z3.BoolVal(p == 'ne')
        op = p
    elif p == 'sle': k = (-c0) // g; op = 'sle'                 # S <= floor(-c0/g)
    elif p == 'slt': k = -((c0) // g) - 1 if c0 % g == 0 else (-c0) // g; op = 'sle'   # S < -c0/g
    elif p == 'sge': k = -((c0) // g); op = 'sge'               # S >= ceil(-c0/g) = -floor(c0/g)
    else: k = (-c0) // g + 1; op = 'sge'                        # S > -c0/g  <=>  S >= floor(-c0/g) + 1
    if op == 'sle':
        if k >= s.hi: return z3.BoolVal(True)
        if k < s.lo: return z3.BoolVal(False)
    elif op == 'sge':
        if k <= s.lo: return z3.BoolVal(True)
        if k > s.hi: return z3.BoolVal(False)
    nw = _width_for(min(s.lo, k), max(s.hi, k)) + 1
    if nw >= w: return None
    se = _encode(s, nw)
    if se is None: return None
    kc = z3.BitVecVal(k % (1 << nw), nw)
    if stats is not None: stats['narrowed_cmps'] += 1
    if op == 'eq': return se == kc
    if op == 'ne': return se != kc
    if op == 'sle': return se <= kc
    return se >= kc

def no_wrap(op, a, b, w, signed):
    """True when the exact integer result of a op b provably fits w bits (so an nsw/nuw flag cannot be violated)"""
    ca = cases(a, w); cb = cases(b, w) if ca is not None else None
    if ca is None or cb is None or len(ca) * len(cb) > MAXCASES: return False
    return all(_no_wrap_lin(op, l1, l2, w, signed) for c1, l1 in ca for c2, l2 in cb)

def _no_wrap_lin(op, la, lb, w, signed):
    lo_lim, hi_lim = (-(1 << (w - 1)), (1 << (w - 1)) - 1) if signed else (0, (1 << w) - 1)
    if not (lo_lim <= la.lo and la.hi <= hi_lim and lo_lim <= lb.lo and lb.hi <= hi_lim): return False
    if op == 'add': r = _add(la, lb)
    elif op == 'sub': r = _add(la, lb, -1)
    elif op == 'mul':
        if not la.terms: r = _scale(lb, la.c0)
        elif not lb.terms: r = _scale(la, lb.c0)
        else: return False
    else: return False
    return lo_lim <= r.lo and r.hi <= hi_lim
