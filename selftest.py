#!/usr/bin/env python3
"""setup_cmd: verifies, offline, that everything the checks need is on disk (nothing is fetched or built ahead of time;
every check regenerates its encoding from /repo's working tree)."""
import shutil, subprocess, sys, os
ok = True
for tool in ('clang++-14', 'g++'):
    if not shutil.which(tool): print('missing tool', tool); ok = False
try:
    import z3; print('z3', z3.get_version_string())
except Exception as e:
    print('z3 python module missing:', e); ok = False
root = os.path.dirname(os.path.abspath(__file__))
sys.path.insert(0, os.path.join(root, 'engine'))
try:
    import irparse, symex, models
except Exception as e:
    print('engine import failed:', e); ok = False
try:
    import linarith_selftest
    if linarith_selftest.main() != 0: ok = False
except Exception as e:
    print('linarith self-test failed:', e); ok = False
for tool in ('cvc5', 'z3'):
    if not shutil.which(tool): print('missing tool', tool); ok = False
os.makedirs(os.path.join(root, 'evidence'), exist_ok=True); os.makedirs(os.path.join(root, 'replay'), exist_ok=True)
print('setup ok' if ok else 'setup FAILED'); sys.exit(0 if ok else 1)
