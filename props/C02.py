from check import Job
EXPLANATION = 'sanitize_config, clamp_chunk_ttl and enforce_manifest_ttl of core/Node.cpp with every duration a free signed 64-bit variable and every PoW difficulty a free byte'
ASSUMPTIONS = ['encoded functions: sanitize_config (and the sanitize_* helpers), clamp_chunk_ttl, enforce_manifest_ttl from core/Node.cpp; the call sites in Node::store_chunk / announce paths and the ControlServer STORE TTL refusal are NOT encoded (they need the whole Node/daemon): outside the claim',
               'the native replay binary for this unit is not linked (core/Node.cpp references the whole daemon), so passing witnesses are not re-executed natively for C02 (traces_validated_against_impl = 0); a counterexample would be reported without native confirmation', 'Config fields other than the durations and PoW difficulties keep their defaults']
def jobs(tier):
    return [Job('config', 'node_leaf.cpp', 'h_c02_config', [0], reach=['sanitised', 'requested-below-minimum', 'requested-above-maximum', 'requested-inside-window'], bounds='all 2^64 values of each duration, all difficulties', timeout=900)]
