from check import Job
EXPLANATION = 'Sha256::transform equals the FIPS 180-4 compression function for every state and block; update/finalize feed exactly the FIPS-padded blocks for every message length and split listed (both compressions abstracted by one uninterpreted function); HmacSha256::compute equals RFC 2104 and verify accepts exactly the correct 32-byte tag'
ASSUMPTIONS = ['composition: jobs other than compress/vectors replace Sha256::transform AND the reference compression by the same uninterpreted function (engine redirect); job compress discharges that abstraction by proving the two equal for all 2^768 inputs',
               'message lengths: quick = the listed boundary lengths (0,1,54..57,63..65,119..121,127..129) with every split into two updates and every split into three updates for lengths <= 12 and 64..66; thorough = every length 0..130 with every two-way split, three-way splits for lengths <= 70 in steps',
               'HMAC key lengths listed (0,1,32,63,64,65,70 quick; 0..70 thorough) x data lengths 0,1,8; verify with tag lengths 0,31,32,33,40',
               'messages of 2^61 bytes or more (bit-length wrap) are outside the claim', 'the reference implementation in harness/sha.cpp was written from FIPS 180-4 / RFC 2104 and is checked against published known answers in job vectors']
R = {'__all_or_nothing__': True, r'Sha2569transformEPKh$': 'h_uf_transform', r'^_ZN4spec8compressEPjPKh$': 'h_uf_spec_compress'}
def jobs(tier):
    out = [Job('compress', 'sha.cpp', 'h_c08_compress', [0], reach=['compressed'], bounds='every 256-bit state and 512-bit block', timeout=1500, solver_timeout_ms=600000),
           Job('vectors', 'sha.cpp', 'h_c08_vectors', [0], reach=['vectors'], bounds='FIPS known answers')]
    if tier == 'quick':
        two = [0, 1, 54, 55, 56, 57, 63, 64, 65, 119, 120, 121, 127, 128, 129]; three = [0, 1, 2, 3, 5, 8, 12, 64, 65, 66]
    else:
        two = list(range(0, 131)); three = list(range(0, 71, 3)) + [55, 56, 63, 64, 65, 119, 120, 128]
    for n in two:
        out.append(Job('pad2-len%d' % n, 'sha.cpp', 'h_c08_padding', [n, 0], reach=['hashed'], redirect=R, enum_cap=256, bounds='message %d B, every split into two updates' % n, timeout=1500))
    for n in three:
        out.append(Job('pad3-len%d' % n, 'sha.cpp', 'h_c08_padding', [n, 1], reach=['hashed'], redirect=R, enum_cap=256, bounds='message %d B, every split into three updates' % n, timeout=3000))
    klens = [0, 1, 32, 63, 64, 65, 70] if tier == 'quick' else list(range(0, 71))
    for k in klens:
        for d in (0, 1, 8):
            out.append(Job('hmac-k%d-d%d' % (k, d), 'sha.cpp', 'h_c08_hmac', [k, d], reach=['mac'], redirect=R, bounds='key %d B, data %d B' % (k, d)))
    for k, d, m in ((32, 4, 32), (32, 4, 31), (32, 4, 33), (32, 0, 0), (70, 1, 32), (0, 0, 32), (32, 4, 40), (32, 4, 288), (32, 0, 64)):
        out.append(Job('verify-k%d-d%d-m%d' % (k, d, m), 'sha.cpp', 'h_c08_verify', [k, d, m], reach=['accepted', 'rejected'] if m == 32 else ['rejected'], redirect=R, bounds='key %d B, data %d B, tag %d B' % (k, d, m)))
    return out
