from check import Job
EXPLANATION = 'the real RelayServer with a model of the sockets: arbitrary byte streams from two clients (two reads each) and well-formed register/connect/bridge traffic, followed by disconnects in every order, cause no invalid memory access or escaping exception and leave no session, registration or open descriptor behind'
ASSUMPTIONS = ['relay/RelayServer.cpp is included whole; EventLoop members are recording stubs, recv/send/close are the harness; accept()/listen() and the epoll loop are not encoded',
               'byte-stream jobs: two clients, two reads of 0..1 (quick) / 0..2 (thorough) fully symbolic bytes each; unbounded line growth (read_buffer has no cap in the code) is outside the bound; release jobs: four traffic scenarios x all six disconnect orders']
def jobs(tier):
    out = [Job('release-s%d' % s, 'relay.cpp', 'h_c26_release', [s], reach=['released'], timeout=1500, bounds='traffic scenario %d, every disconnect order' % s) for s in (0, 1, 2, 3)]
    for n in ((0, 1) if tier == 'quick' else (0, 1, 2)):
        out.append(Job('bytes-len%d' % n, 'relay.cpp', 'h_c26_bytes', [n], reach=['released'], timeout=3000, max_paths=2000000, bounds='two clients x two reads of %d symbolic bytes' % n))
    return out
