from check import Job
import itertools
EXPLANATION = 'the real ChunkStore with persistence on, its operating-system primitives replaced by a model disk: over every sequence of put / lookup / sweep a chunk file exists only for a stored, not yet cleaned-up chunk, holds the stored bytes, and is gone after the cleanup that follows the expiry (also when a lookup noticed the expiry first, and when a write fails); a second instance on the same directory is the restart case'
ASSUMPTIONS = ['ensure_storage_directory, persist_chunk_to_disk, secure_wipe_file and chunk_path_for_key are redirected to harness functions over a model disk (path -> bytes, arbitrary write failure); their own std::filesystem / fstream code, fsync and rename semantics are NOT encoded: only when the store calls them is decided',
               'crash points inside a primitive (a half-written file) are outside the model; the restart job covers "an earlier instance left a file"',
               'sequences of 3 (quick) / 4 (thorough) operations over two chunk ids, TTL 1..16 s, event times on the 1/8 s grid; these jobs are not replayed natively (the model disk exists only in the engine)']
R = {r'ChunkStore24ensure_storage_directoryEv$': 'h_ensure_dir', r'ChunkStore18chunk_path_for_keyERKNSt7__cxx1112basic_string': 'h_chunk_path',
     r'ChunkStore21persist_chunk_to_diskERKNSt7__cxx1112basic_string': 'h_persist', r'ChunkStore16secure_wipe_fileERKNSt10filesystem': 'h_wipe',
     r'^_ZNSt10filesystem7__cxx114path14_M_split_cmptsEv$': 'h_path_split_stub'}
F = ['C04-files-of-earlier-instance-never-reclaimed']
OPS = 'PLS'
def jobs(tier):
    k = 3 if tier == 'quick' else 4
    out = []
    for ops in itertools.product(range(3), repeat=k):
        if ops[0] != 0: continue
        seq = sum(o * 3 ** i for i, o in enumerate(ops))
        out.append(Job('hist-' + ''.join(OPS[o] for o in ops), 'store_persist.cpp', 'h_c04_history', [k, seq], reach=['put'], redirect=R, native=False, timeout=1500, bounds='operations %s' % ''.join(OPS[o] for o in ops)))
    out.append(Job('restart', 'store_persist.cpp', 'h_c04_restart', [0], reach=[], redirect=R, findings=F, native=False, timeout=1500, bounds='store, stop, new instance, expiry, sweep (model disk; the finding was replayed once on a real scratch directory, see known_findings.jsonl)'))
    return out
