from check import Job
import itertools
EXPLANATION = 'the real ChunkStore with persistence on, its operating-system primitives replaced by a model disk: over every sequence of put / lookup / sweep a chunk file exists only for a stored, not yet cleaned-up chunk, holds the stored bytes, and is gone after the cleanup that follows the expiry (also when a lookup noticed the expiry first, and when a write fails); a second instance on the same directory is the restart case'
ASSUMPTIONS = ['persist_chunk_to_disk is the real code over a model of its primitives: std::ofstream is a source-level class writing to a model disk (open, write - with a prefix already written - and flush may each fail), std::filesystem::status (behind exists()) reads the model disk; ensure_storage_directory, secure_wipe_file and chunk_path_for_key are redirected to harness functions over the same model disk: their own std::filesystem / fstream code (directory creation, overwrite passes, remove), fsync and rename semantics are NOT encoded',
               'a write that fails part-way leaves a prefix on the model disk (the store must remove it); a crash of the process itself mid-write is outside the model; the restart job covers "an earlier instance left a file"',
               'sequences of 3 (quick) / 4 (thorough) operations over two chunk ids, TTL 1..16 s, event times on the 1/8 s grid; these jobs are not replayed natively (the model disk exists only in the engine)']
R = {r'ChunkStore24ensure_storage_directoryEv$': 'h_ensure_dir', r'ChunkStore18chunk_path_for_keyERKNSt7__cxx1112basic_string': 'h_chunk_path',
     r'^_ZNSt10filesystem6statusERKNS_7__cxx114pathE$': 'h_fs_status', r'ChunkStore16secure_wipe_fileERKNSt10filesystem': 'h_wipe',
     r'^_ZNSt10filesystem7__cxx114path14_M_split_cmptsEv$': 'h_path_split_stub'}
F = ['C04-files-of-earlier-instance-never-reclaimed']
OPS = 'PLS'
def jobs(tier):
    k = 3 if tier == 'quick' else 4
    out = []
    for ops in itertools.product(range(3), repeat=k):
        if ops[0] != 0: continue
        seq = sum(o * 3 ** i for i, o in enumerate(ops))
        out.append(Job('hist-' + ''.join(OPS[o] for o in ops), 'store_persist.cpp', 'h_c04_history', [k, seq], reach=['put'], redirect=R, native=False, timeout=1500, bounds='operations %s' % ''.join(OPS[o] for o in ops)))
    out.append(Job('restart', 'store_persist.cpp', 'h_c04_restart', [0], reach=[], redirect=R, findings=F, native=False, timeout=1500, bounds='store, stop, new instance, expiry, sweep (model disk; the finding was replayed once on a real scratch directory, see known_findings.jsonl)'))
    return out
