from check import Job
EXPLANATION = 'the two places where `eph fetch` turns delivered bytes into an output file, lifted from the current src/main.cpp: decrypt_chunk_with_manifest (transport / relay paths) returns plaintext only if it hashes to the manifest content hash; finalize_fetch (control-hint, control:// fallback, local-daemon paths) writes the file only if the delivered bytes hash to it'
ASSUMPTIONS = ['decrypt_chunk_with_manifest and the lambda finalize_fetch are lifted textually; the 1700-line fetch command around them (discovery, sockets, relay client, which path is tried when) is NOT encoded: only "bytes delivered -> file written" is decided',
               'SHA-256 is an uninterpreted function in the engine (real natively); std::ofstream / std::cout are source-level recording classes in the engine, natively the real ones run and the file is read back from a scratch directory',
               '1..2 shards with concrete values, returned bytes 0..2 symbolic bytes, content hash fully symbolic']
SN = {'SNIP_DECRYPT': ('src/main.cpp', 'decrypt_chunk_with_manifest'), 'SNIP_FINALIZE': ('src/main.cpp', r're:auto finalize_fetch = \[&\]\(')}
R = {r'?^_ZNSt10filesystem7__cxx114path14_M_split_cmptsEv$': 'h_path_split_stub3'}
def jobs(tier):
    out = []
    for s, l in (((1, 1), (2, 2)) if tier == 'quick' else ((1, 0), (1, 1), (1, 2), (2, 1), (2, 2))):
        out.append(Job('decrypt-s%d-l%d' % (s, l), 'cli_fetch.cpp', 'h_c30_decrypt', [s, l], reach=['accepted', 'refused'], snippets=SN, redirect=R, timeout=1500, bounds='%d shards, %d returned bytes' % (s, l)))
    for l in ((1, 2) if tier == 'quick' else (0, 1, 2, 3)):
        out.append(Job('finalize-l%d' % l, 'cli_fetch.cpp', 'h_c30_finalize', [l, 0], reach=['written'], snippets=SN, redirect=R, timeout=1500, bounds='%d delivered bytes; content hash and chunk id symbolic relative to their digest' % l))
        out.append(Job('finalize-l%d-extra-header' % l, 'cli_fetch.cpp', 'h_c30_finalize', [l, 1], reach=['written'], snippets=SN, redirect=R, timeout=1500, bounds='%d delivered bytes, plus one response header with a symbolic 9-letter key and 8-character value' % l))
    return out
