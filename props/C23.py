from check import Job
from props.node_snips import SN
import itertools
EXPLANATION = 'upload-slot bookkeeping of Node on a partial Node: every sequence of requests, ticks and acknowledgements (peer, chunk, limits, clock symbolic) keeps the number of uploads within the overall and per-peer limits and keeps every peer\'s slot counter equal to its uploads in flight'
ASSUMPTIONS = ['member functions enqueue_upload_request, process_pending_uploads, can_accept_more_uploads, can_dispatch_upload, note_upload_start/end, prune_stale_uploads, make_upload_key are lifted textually from the current core/Node.cpp and compiled against the real class declaration; only the members they touch exist',
               'dispatch_upload (manifest/record lookup, signing, transport send, negative ack) is cut: whether a request is served and sent is arbitrary, and as in the real function a slot is taken only after a successful send; the negative-acknowledgement clause of the property is therefore NOT decided here',
               'limits 0..2 (0 = unlimited), transfer timeout 0..7 s, reconsider interval 0..1 s, two peers x two chunks, event times on the 1/8 s grid; sequences of 3 (quick) / 4 (thorough) events']
OPS = 'RTA'
def jobs(tier):
    k = 3 if tier == 'quick' else 4
    out = []
    for ops in itertools.product(range(3), repeat=k):
        if ops[0] != 0: continue
        seq = sum(o * 3 ** i for i, o in enumerate(ops))
        out.append(Job('ev-' + ''.join(OPS[o] for o in ops), 'node_kern.cpp', 'h_c23_uploads', [k, seq], reach=['request'], snippets=SN, timeout=1500, bounds='event sequence %s' % ''.join(OPS[o] for o in ops)))
    return out
