from check import Job
EXPLANATION = 'GF(2^8) kernels equal a bitwise reference for all operands; split/combine round-trip with symbolic secret byte and coefficients for every ordered t-subset; bad share sets are refused'
ASSUMPTIONS = ['std::random_device replaced by a stub returning solver variables for one secret byte position at a time (other positions concrete): byte positions are processed by the same code with no shared state',
               '(t, n) pairs are the listed ones (quick: t <= 2; thorough: t <= 3); n = 255 is exercised with t = 1 (termination, index distinctness); x^8+x^4+x^3+x^2+1 is irreducible (textbook fact), so equality with the reference product makes the share arithmetic a field',
               'reject harness: each share value is one symbolic byte repeated 32 times']
def jobs(tier):
    out = [Job('field', 'shamir.cpp', 'h_c10_field', [0], reach=['div', 'div0'], bounds='all 65536 operand pairs (symbolic)'),
           Job('split-args', 'shamir.cpp', 'h_c10_split_args', [0], reach=['refused'], bounds='all (t, n) with t = 0, n = 0 or t > n')]
    combos = [(2, 0, 1), (2, 1, 1), (2, 2, 1), (3, 0, 0), (3, 1, 0)] + ([(3, 0, 1), (3, 1, 1), (3, 2, 1), (4, 1, 0), (5, 1, 0)] if tier == 'thorough' else [])
    for t, sid, ordered in combos:
        for sp in range(t):
            out.append(Job('combine-spec-t%d-set%d-sym%d%s' % (t, sid, sp, '-ord' if ordered else ''), 'shamir.cpp', 'h_c10_combine_spec', [t, sid, sp, ordered], reach=['interpolated'], timeout=3300,
                           bounds='%d shares, every %s tuple of distinct indices from set %d, value of share %d symbolic' % (t, 'ordered' if ordered else 'increasing', sid, sp)))
    tn = [(1, 1, 0), (1, 1, 31), (1, 3, 0), (2, 2, 0)] if tier == 'quick' else [(1, 1, 0), (1, 1, 31), (1, 3, 0), (2, 2, 0), (2, 2, 31), (2, 3, 0), (2, 3, 17)]   # (3, 3, 0) was dropped: its final query (three symbolic coefficients through the log/exp tables) is not decided by any back end within the solver budget; t = 3 is covered by the combine-spec jobs
    for t, n, pos in tn:
        out.append(Job('rt-t%d-n%d-pos%d' % (t, n, pos), 'shamir.cpp', 'h_c10_roundtrip', [t, n, pos], reach=['reconstructed'], timeout=3000,
                       bounds='t=%d n=%d, secret byte %d and its coefficients symbolic, all ordered t-subsets' % (t, n, pos)))
    out.append(Job('rt-t1-n255', 'shamir.cpp', 'h_c10_roundtrip', [1, 255, 0], reach=['reconstructed'], bounds='t=1 n=255 (termination, 255 distinct non-zero indices)', max_steps=30_000_000))
    for t, m, b in [(1, 0, 0), (2, 1, 0), (3, 2, 0), (2, 2, 0), (2, 3, 4), (3, 3, 4)] + ([(3, 4, 4), (2, 3, 16)] if tier == 'thorough' else []):
        out.append(Job('reject-t%d-m%d-b%d' % (t, m, b), 'shamir.cpp', 'h_c10_reject', [t, m, b], reach=['refused-or-flagged'], enum_cap=256,
                       bounds='threshold %d, %d shares, symbolic indices%s' % (t, m, (' < %d' % b) if b else ' (all 256 values)')))
    # secrecy (necessary condition): t-1 shares must not determine the secret for every value of the randomness
    for t in ((2, 6) if tier == 'quick' else (2, 3, 4, 6, 8)):
        out.append(Job('secrecy-t%d' % t, 'shamir.cpp', 'h_c10_secrecy', [t], reach=['split'], must_reach={'fewer-shares-miss-the-secret': 'C10: fewer than the threshold of shares always determine the secret byte (the polynomial never has its full degree)'},
                       timeout=1500, bounds='threshold %d = share count, the first two draws of the random device symbolic (every octet 0 or 1), later draws fixed' % t))
    return out
