from check import Job
import itertools
EXPLANATION = 'histories of provider announcements, lookups, sweeps and withdrawals on the real KademliaTable (real unordered_map / vector / deque code) with a symbolic steady clock; a per-(chunk, peer) deadline oracle decides every lookup; cap of 20 providers with a symbolic 21st lifetime'
ASSUMPTIONS = ['steady_clock::now is the harness clock: event times on a 1/8 s grid, advance 0..127 eighths (< 16 s) before every step and before the final lookups; since deadlines are event times plus whole seconds, every real-valued schedule of <= 8 events is order-isomorphic to one on this grid (magnitudes are bounded, orderings are not)',
               'std::_Hash_bytes / rehash policy / chunk_id_to_string are the harness models of harness/include/stdmodels.h',
               'announced TTL in [-4, 251] s; peers and chunks are fixed distinct ids (the code compares ids only for equality); address is one symbolic byte',
               'every operation sequence of the listed length that starts with an announcement, one job per sequence; which peer/chunk each step addresses is symbolic; a final lookup of every chunk closes each history',
               'cap job: 20 concrete distinct lifetimes + one symbolic (fully symbolic lifetimes for 21 providers would need 21! sort orders: outside the bound)']
OPS = 'AFSW'   # announce, find, sweep, withdraw
def jobs(tier):
    out = [Job('cap', 'dht.cpp', 'h_c06_cap', [0], reach=['new-kept', 'new-dropped'], bounds='20 providers + 1 with symbolic TTL 1..400 s', timeout=1500)]
    shapes = [(3, 2, 1), (2, 2, 2)] if tier == 'quick' else [(4, 2, 1), (3, 3, 1), (3, 2, 2)]
    for k, npeers, nchunks in shapes:
        for tail in itertools.product(range(4), repeat=k - 1):
            ops = (0,) + tail
            seq = sum(o * 4 ** i for i, o in enumerate(ops))
            name = 'hist-%dp%dc-%s' % (npeers, nchunks, ''.join(OPS[o] for o in ops))
            out.append(Job(name, 'dht.cpp', 'h_c06_history', [k, npeers, nchunks, seq], reach=['announce'], bounds='sequence %s over %d peers x %d chunks' % (name.split('-')[-1], npeers, nchunks), timeout=1500 if tier == 'quick' else 3300))
    return out
