from check import Job
from props.C11 import SN
EXPLANATION = 'the replica-import handler Node::receive_chunk (lifted onto a partial Node with the real Shamir / CryptoManager / ChunkStore / KademliaTable) lets no exception escape and performs no invalid memory access for any share set, threshold, expiry and ciphertext within the bounds; the wire decoders it sits behind are decided in C16 (messages), C18 (manifests), C33 (STUN) and C38 (update metadata)'
ASSUMPTIONS = ['ONLY this handler plus the decoder checks it composes with: the session threads, the control-plane request parser (iostream-bound), handle_announce / handle_request dispatch and liveness ("keeps serving others") are not encoded',
               'share sets of 0..3 shards with symbolic indices in 1..3 (repeated indices inside), symbolic threshold (0..255), ciphertext 0..2 symbolic bytes; decode_manifest supplied by the harness, SHA-256 uninterpreted (real natively)']
def jobs(tier):
    out = []
    for s, l in (((0, 1), (2, 1), (3, 0)) if tier == 'quick' else ((0, 0), (0, 1), (1, 1), (2, 0), (2, 1), (2, 2), (3, 0), (3, 1))):
        out.append(Job('receive-s%d-l%d' % (s, l), 'node_recv.cpp', 'h_c11_receive', [s, l], reach=['refused'], snippets=SN, timeout=1500, bounds='%d shards, %d ciphertext bytes' % (s, l)))
    # a signed, admissible ANNOUNCE with an adversarial manifest (shard indices / total_shares header unrelated) through the real handle_announce
    from props.C21 import SNA
    out.append(Job('announce-s2', 'node_announce.cpp', 'h_c21_announce', [2, 0], reach=['admitted', 'refused'], snippets=SNA, timeout=3000, bounds='one ANNOUNCE through the real handle_announce: 2 shards, last shard index (0..15) and total_shares header (0..7) symbolic, assigned shard symbolic'))
    # control-plane request bytes through the whole daemon/ControlServer.cpp (recv_line, parse_request, handle_client and every handler)
    RW = {'^_ZNSt10filesystem7__cxx114path14_M_split_cmptsEv$': 'h_path_split_stub4', '?^_ZNSt10filesystem8absoluteERKNS_7__cxx114pathE$': 'h_fs_absolute4', '?^_ZNKSt10filesystem7__cxx114path11parent_pathEv$': 'h_fs_parent_empty4', '?^_ZNSt10filesystem8absoluteERKNS_7__cxx114pathERSt10error_code$': 'h_fs_absolute_ec4'}
    for n in ((0, 1) if tier == 'quick' else (0, 1, 2)):
        out.append(Job('control-fetch-out%d' % n, 'ctrl_full.cpp', 'h_c35_control_fetch', [n], reach=['answered'], redirect=RW, timeout=1500, bounds='FETCH with an OUT header of %d symbolic characters' % n))
    for n in ((2, 6) if tier == 'quick' else (0, 1, 2, 3, 6, 9)):
        out.append(Job('control-bytes%d' % n, 'ctrl_full.cpp', 'h_c35_control_bytes', [n], reach=['survived'], redirect=RW, timeout=2400, bounds='a control request of %d arbitrary bytes' % n))
    for n in ((0, 1) if tier == 'quick' else (0, 1, 2, 3)):
        out.append(Job('control-header-v%d' % n, 'ctrl_full.cpp', 'h_c35_control_header', [n], reach=['answered'], redirect=RW, timeout=2400, bounds='any of the 9 commands with any one of 9 headers carrying %d symbolic characters' % n))
    return out
