from check import Job
EXPLANATION = 'decode_manifest on arbitrary input: the base64 layer on every string of the listed lengths, the URI prologue, and the binary decoder on arbitrary exact-size payloads of the listed lengths: no out-of-bounds access, no flagged-arithmetic overflow (including the seconds -> system_clock conversion of the expiry), only std::invalid_argument escapes'
ASSUMPTIONS = ['binary-layer jobs replace base64_decode by the identity on bytes (engine redirect), i.e. the decoder sees an arbitrary byte vector; natively the payload is wrapped with an RFC 4648 encoder and the real base64_decode runs',
               'payload lengths are the listed values (around every section boundary of each format version), contents fully symbolic, length fields enumerated; longer payloads are outside the bound',
               'allocation failure out of scope']
R = {r'base64_decodeERKNSt7__cxx1112basic_string': 'h_b64_decode_identity'}
def jobs(tier):
    out = []
    for n in ((0, 1, 3, 4, 5, 8) if tier == 'quick' else (0, 1, 2, 3, 4, 5, 7, 8, 12)):
        out.append(Job('b64-len%d' % n, 'manifest.cpp', 'h_c18_base64', [n], reach=['rejected'] if n in (1, 2, 3, 5, 7) else [], bounds='every %d-character string' % n, timeout=1500, max_paths=2000000))
    for n in ((0, 5, 6, 7) if tier == 'quick' else (0, 1, 5, 6, 7, 10)):
        out.append(Job('prefix-len%d' % n, 'manifest.cpp', 'h_c18_prefix', [n], bounds='every %d-character string' % n, timeout=1500, max_paths=2000000))
    base = 1 + 32 + 32 + 12 + 8 + 3   # 88
    lens = {0: [0, 1, base - 1], 1: [base, base + 33, base + 34], 2: [base, base + 1, base + 4, base + 6], 3: [base + 1, base + 2, base + 5], 4: [base + 1, base + 2, base + 5]}
    if tier == 'thorough':
        lens[2] += [base + 8]; lens[3] += [base + 6, base + 7]; lens[4] += [base + 6, base + 8]
    for v, ls in lens.items():
        for n in ls:
            out.append(Job('payload-v%d-len%d' % (v, n), 'manifest.cpp', 'h_c18_payload', [n, v], reach=['rejected'], redirect=R, enum_cap=300, timeout=1500, bounds='payload %d B, version byte %s' % (n, v or 'symbolic')))
    return out
