from check import Job
EXPLANATION = 'decode / decode_signed on an arbitrary exact-size heap buffer: no out-of-bounds access, no UB, no exception; accepted messages re-encode to a prefix of the input'
ASSUMPTIONS = ['buffer lengths are the listed concrete values, contents fully symbolic; length fields decoded from the buffer are enumerated exhaustively',
               'HmacSha256::verify is a nondeterministic stub (its correctness is C08); allocation failure out of scope',
               'lengths beyond the listed ones are outside the claim']
def jobs(tier):
    out = []
    small = [0, 1, 2, 3, 7, 8, 14, 15, 16]
    for n in small:
        out.append(Job('plain-len%d' % n, 'msg.cpp', 'h_c16_decode', [n, 0], reach=['rejected'], bounds='buffer %d B, any type' % n))
    per_type = {1: [81, 82, 83, 85, 89, 90], 2: [65, 66, 67], 3: [41, 42, 43, 45], 4: [66, 67, 68], 5: [14, 15, 16], 6: [7, 8, 9]}
    if tier == 'thorough':
        per_type[1] += [91, 93, 96]; per_type[3] += [48, 50]
    for t, lens in per_type.items():
        for n in lens:
            out.append(Job('plain-type%d-len%d' % (t, n), 'msg.cpp', 'h_c16_decode', [n, t], reach=['rejected'], bounds='buffer %d B, type byte %d' % (n, t)))
    for n in [0, 31, 32, 33, 34, 40, 47]:
        out.append(Job('signed-len%d' % n, 'msg.cpp', 'h_c16_decode_signed', [n, 0], reach=['rejected'], bounds='signed buffer %d B' % n))
    for t, n in ((2, 98), (3, 75), (6, 40), (5, 47), (1, 120)):
        out.append(Job('signed-type%d-len%d' % (t, n), 'msg.cpp', 'h_c16_decode_signed', [n, t], reach=['accepted', 'rejected'], bounds='signed buffer %d B, type %d' % (n, t)))
    return out
