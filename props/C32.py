from check import Job
EXPLANATION = 'configuration layering of the CLI (the config namespace, GlobalOptions, apply_profile_to_options and load_configuration lifted from the current src/main.cpp): with every layer\'s presence and value symbolic, the effective control port equals the value of the highest-precedence layer that sets it (flag, environment override, selected profile, parent, grandparent, unset), untouched profile settings survive, and cyclic or missing profiles raise ConfigError'
ASSUMPTIONS = ['config::load_document (file reading and the YAML/JSON text parsers) is replaced by a function returning the document the harness built; argv parsing is not encoded: the flag layer is the GlobalOptions field a flag sets',
               'representative options: control.port (integer, five layers) and storage.persistent (boolean, profile only); extends chains of length 0..2, one environment with an overrides map; std::map / std::set primitives are the unbalanced-tree models',
               'compiled as C++17 for clang-14 (see harness/cfg.cpp); std::string members come from the strinst.cpp extra module']
SN = {'SNIP_PRE': ('src/main.cpp', 'parse_floating_token'), 'SNIP_GLOBAL_OPTIONS': ('src/main.cpp', r're:^struct GlobalOptions \{'), 'SNIP_CONFIG_NS': ('src/main.cpp', r're:^namespace config \{'),
      'SNIP_APPLY': ('src/main.cpp', 'apply_profile_to_options'), 'SNIP_LOAD': ('src/main.cpp', 'load_configuration')}
def jobs(tier):
    out = []
    for env in (0, 1):
        for chain in (0, 1, 2):
            out.append(Job('precedence-env%d-chain%d' % (env, chain), 'cfg.cpp', 'h_c32_precedence', [env, chain], extra_units=['strinst.cpp'], reach=['resolved'], snippets=SN, stream_sink=True, timeout=1500, bounds='environment layer %s, extends chain of length %d' % ('present' if env else 'absent', chain)))
    for k in (0, 1, 2, 3, 4):
        out.append(Job('errors-%d' % k, 'cfg.cpp', 'h_c32_errors', [k], extra_units=['strinst.cpp'], reach=['reported'], snippets=SN, stream_sink=True, timeout=1500, bounds='error kind %d (self cycle, 2-cycle, missing ancestor, missing selected profile, tail leading into a cycle that does not contain the selected profile)' % k))
    return out
