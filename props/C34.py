from check import Job
EXPLANATION = 'the host classifiers that gate append_candidate: every IPv4 address in an IANA special-purpose block of the statement is classified non-routable, as octets, as dotted-quad text and as IPv4-mapped IPv6 text'
ASSUMPTIONS = ['encoded: is_private_or_reserved_ipv4 / parse_ipv4 / is_private_or_reserved_ipv6 / is_private_or_reserved_host of network/AdvertiseDiscovery.cpp; texts are of the shapes AB.C.DDD.E, ABC.C.DDD.E, AB.CD.DDD.E, ABC.CDE.DDD.E (symbolic digits), plain or with the ::ffff: prefix as inet_ntop prints mapped addresses',
               'the publication step: Node::refresh_advertised_endpoints is lifted onto a partial Node and run over the real build_transport_advertise_candidates / select_public_advertise_candidate with enumerated discovery outcomes (jobs refresh-*): off publishes nothing automatic, warn withholds conflicting candidates, stale automatic endpoints are not carried over, nothing non-routable is published; the NAT traversal itself and manifest hint generation are not encoded; native IPv6 special ranges are not compared against a reference here']
def jobs(tier):
    out = [Job('octets', 'adv.cpp', 'h_c34_v4', [0], reach=['nonroutable', 'routable'], bounds='all 2^32 IPv4 addresses')]
    for mapped in (0, 1):
        for fd, sd in ((2, 1), (3, 1), (2, 2), (3, 2), (3, 3)):
            out.append(Job('text-m%d-%d-%d' % (mapped, fd, sd), 'adv.cpp', 'h_c34_text', [mapped, fd, sd], reach=['nonroutable'], bounds='mapped=%d, octet digit counts %d/%d/3/1' % (mapped, fd, sd), timeout=900))
    SNR = {'SNIP_REFRESH': ('src/core/Node.cpp', 're:^[A-Za-z_:<>, 0-9]*\\bNode::refresh_advertised_endpoints\\(')}
    for mode, name in ((0, 'on'), (1, 'warn'), (2, 'off')):
        out.append(Job('refresh-' + name, 'adv_node.cpp', 'h_c34_refresh', [mode], reach=['refreshed'], snippets=SNR, timeout=1500, bounds='Node::refresh_advertised_endpoints (lifted) over the real candidate assembly, auto-advertise %s; pinned / stale endpoints, transport port, NAT status, STUN result, external address kind and port, control host symbolic (enumerated)' % name))
    return out
