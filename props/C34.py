from check import Job
EXPLANATION = 'the host classifiers that gate append_candidate: every IPv4 address in an IANA special-purpose block of the statement is classified non-routable, as octets, as dotted-quad text and as IPv4-mapped IPv6 text'
ASSUMPTIONS = ['encoded: is_private_or_reserved_ipv4 / parse_ipv4 / is_private_or_reserved_ipv6 / is_private_or_reserved_host of network/AdvertiseDiscovery.cpp; texts are of the shapes AB.C.DDD.E, ABC.C.DDD.E, AB.CD.DDD.E, ABC.CDE.DDD.E (symbolic digits), plain or with the ::ffff: prefix as inet_ntop prints mapped addresses',
               'not encoded: the candidate assembly (unordered_set/unordered_map of strings, std::to_string) and Node-side publication, warn mode and auto-advertise-off: outside the claim; native IPv6 special ranges are not compared against a reference here']
def jobs(tier):
    out = [Job('octets', 'adv.cpp', 'h_c34_v4', [0], reach=['nonroutable', 'routable'], bounds='all 2^32 IPv4 addresses')]
    for mapped in (0, 1):
        for fd, sd in ((2, 1), (3, 1), (2, 2), (3, 2), (3, 3)):
            out.append(Job('text-m%d-%d-%d' % (mapped, fd, sd), 'adv.cpp', 'h_c34_text', [mapped, fd, sd], reach=['nonroutable'], bounds='mapped=%d, octet digit counts %d/%d/3/1' % (mapped, fd, sd), timeout=900))
    return out
