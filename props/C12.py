from check import Job
EXPLANATION = 'public-key gate for all 2^32 candidates; handshake key material symmetric and injective on unordered pairs of public keys; both ends of a session register the same key = HMAC(shared secret, material); Diffie-Hellman agreement for bounded private scalars'
ASSUMPTIONS = ['SHA-256 and HMAC-SHA256 are uninterpreted functions in the engine (their correctness is C08) and the real code in the native replay',
               'make_handshake_material is lifted textually from the current core/Node.cpp at check time (the 2800-line unit itself is not encoded); Node::perform_handshake and the PoW gate are outside this check (C20 is not claimed)',
               'Diffie-Hellman agreement: private scalars a, b enumerated below 2^4 (quick) / 2^6 (thorough) plus scalars with a high bit set (a = k*2^s+1, b = k*2^(s-3)+5 for the listed shifts); full 32-bit symbolic exponents are outside the bound (symbolic exponent x 64-bit modular multiplication does not bit-blast within budget)']
SN = {'NODE_MATERIAL_SNIPPET': ('src/core/Node.cpp', 'make_handshake_material')}
def jobs(tier):
    out = [Job('validate', 'kx.cpp', 'h_c12_validate', [0], reach=['accepted', 'refused'], snippets=SN, bounds='all 2^32 candidates'),
           Job('material', 'kx.cpp', 'h_c12_material', [0], reach=['distinct', 'same'], snippets=SN, bounds='all pairs of pairs of 32-bit public keys'),
           Job('rehandshake', 'kx.cpp', 'h_c12_rehandshake', [0], reach=['rotated-between', 'not-rotated'], snippets=SN, bounds='handshake, optional rotation on one end, handshake again'),
           Job('session-key', 'kx.cpp', 'h_c12_session_key', [0], reach=['keyed'], snippets=SN, bounds='all secrets and public keys')]
    bits = 4 if tier == 'quick' else 6
    out.append(Job('dh-low%d' % bits, 'kx.cpp', 'h_c12_dh', [bits, 0], reach=['agreed'], snippets=SN, enum_cap=100, max_steps=50_000_000, bounds='a, b < 2^%d' % bits, timeout=3000))
    for sh in ((28, 16) if tier == 'quick' else (28, 24, 16, 9)):
        out.append(Job('dh-high-shift%d' % sh, 'kx.cpp', 'h_c12_dh', [2 if tier == 'quick' else 3, sh], reach=['agreed'], snippets=SN, enum_cap=100, max_steps=50_000_000, bounds='scalars with bits up to %d set' % (sh + 3), timeout=3000))
    return out
