from check import Job
from props.C20 import SN as SN20, R as R20
EXPLANATION = 'lock discipline on the key and handshake state of Node: perform_handshake (transport accept thread), session_shared_key (session reader threads), rotate_session_keys (tick, under the node mutex) and session_key (control handlers, under the node mutex) are lifted from the current core/Node.cpp and run on a partial Node with the real KeyManager, KeyExchange and ReputationManager; every access to Node::key_manager_, Node::handshake_state_ and Node::reputation_ on every path is logged with the mutexes held, and every pair of roles that can run concurrently and touch the same member (one of them writing) must share a mutex'
ASSUMPTIONS = ['a SUFFICIENT condition for race freedom (Eraser-style lock sets computed over all symbolic paths of each role), not an exploration of interleavings: a pair of accesses without a common mutex is reported only after the same roles, run as real threads under ThreadSanitizer, produced a data-race report',
               'roles and what they hold are taken from the daemon: serve loop and control handlers hold the node mutex of src/main.cpp / ControlServer.cpp; SessionManager threads call into Node without it (SessionManager.cpp); only these entry points and handle_announce (job locksets-announce: reader threads announcing concurrently) are encoded - the other handlers reached from session threads (handle_request, handle_chunk, ...) and the members they touch are outside the claim',
               'std::mutex / std::recursive_mutex are the pthread models of the engine (locking always succeeds; the set of held mutexes is tracked); 2 rounds of the four roles, symbolic offered key, nonce, cooldown and clock']
SN = dict(SN20); SN.update({'SNIP_ROTATE_SESSION_KEYS': ('src/core/Node.cpp', 're:^[A-Za-z_:<>, 0-9]*\\bNode::rotate_session_keys\\('), 'SNIP_SESSION_KEY': ('src/core/Node.cpp', 're:^[A-Za-z_:<>, 0-9]*\\bNode::session_key\\('),
                            'SNIP_SESSION_SHARED_KEY': ('src/core/Node.cpp', 're:^[A-Za-z_:<>, 0-9]*\\bNode::session_shared_key\\(')})
def jobs(tier):
    from props.C21 import SNA
    return [Job('locksets-announce', 'node_announce.cpp', 'h_c21_announce', [2, 0], reach=['admitted', 'refused'], snippets=SNA, timeout=3000,
                lockset={'multi': ['reader-thread'], 'tsan_entry': 'h_c36_tsan_announce', 'known': {}},
                bounds='role reader-thread running Node::handle_announce concurrently with itself; members manifest_cache_, dht_, peer_announce_history_ / lockouts_ / failure_history_, reputation_'),
            Job('locksets', 'node_hs.cpp', 'h_c36_locksets', [0], defines=['VERIF_RACE=1'], reach=['roles-run'], snippets=SN, redirect=R20, timeout=1500,
                lockset={'multi': ['reader-thread'], 'serialised': [['tick-thread', 'control-thread']], 'tsan_entry': 'h_c36_tsan', 'known': {}},
                bounds='roles accept-thread / reader-thread / tick-thread / control-thread, 2 rounds, members key_manager_, handshake_state_, reputation_')]
