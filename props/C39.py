from check import Job
EXPLANATION = 'two KeyManagers (the two ends of one session) registered with the same secret and material; each end ticks on its own monotonic clock; after any ticks both ends must hold the same key (KeyManager has no teardown or re-key exchange)'
ASSUMPTIONS = ['HMAC-SHA256 is an uninterpreted function in the engine (different inputs may give different keys: collision-freeness is the cryptographic assumption) and the real code in the native replay',
               'rotation interval symbolic in [5, 3600] s; each end: clock origin < 65536 s and advances < 8192 s between ticks, whole seconds (the rotation interval is whole seconds too); 1 tick per end (quick) / 2 ticks per end (thorough)',
               'Node::rotate_session_keys only forwards the rotated key to SessionManager (no teardown, no re-key message: checked by reading, not encoded)']
SN = {'NODE_MATERIAL_SNIPPET': ('src/core/Node.cpp', 'make_handshake_material')}
F = ['C39-rotation-mixes-local-clock']
def jobs(tier):
    out = [Job('ticks-1-1', 'kx.cpp', 'h_c39_rotation', [1, 1], reach=['compared'], snippets=SN, findings=F, bounds='one tick per end'),
           Job('ticks-1-0', 'kx.cpp', 'h_c39_rotation', [1, 0], reach=['compared'], snippets=SN, findings=F, bounds='one end ticks once')]
    out += [Job('schedule-rehandshake%d' % r, 'kx.cpp', 'h_c39_schedule', [r], reach=['compared'], snippets=SN, findings=F, bounds='handshake%s, one tick per end, tick timestamps from 3 s before to 8188 s after the latest registration' % (', re-handshake' if r else '')) for r in (0, 1)]
    if tier == 'thorough': out.append(Job('ticks-2-2', 'kx.cpp', 'h_c39_rotation', [2, 2], reach=['compared'], snippets=SN, findings=F, bounds='two ticks per end'))
    return out
