from check import Job
EXPLANATION = 'ChaCha20::apply on one block equals input XOR the RFC 8439 block function for every key, nonce, counter and input; for longer inputs byte i uses block (counter + i/64) mod 2^32 (fully symbolic counter, so the 32-bit wrap is inside); applying twice is the identity; CryptoManager derives the counter from the chunk id, uses the nonce it returns, and decrypt inverts encrypt'
ASSUMPTIONS = ['composition: stream/manager jobs replace the real chacha20_block AND the reference block function by one uninterpreted function KS(key, nonce, counter) (engine redirect); job block discharges that abstraction for all 2^416 (key, nonce, counter) values and all inputs',
               'input lengths are the listed ones (quick: 0,1,63,64,65,127,128,129; thorough: every length 0..200); the loop body is length-independent',
               'std::random_device is a concrete stub (nonce values themselves are not the subject); the all-zero key (replaced by a random key in the constructor) is outside the claim',
               'reference block function written from RFC 8439 2.1-2.3 and checked against the RFC test vectors in job vectors']
R = {'__all_or_nothing__': True, r'chacha20_blockERKNS0_3KeyERKNS0_5NonceEjRSt5arrayIhLm64EE$': 'h_uf_real_block', r'^_ZN4spec5blockEPKhS1_jPh$': 'h_uf_spec_block'}
def jobs(tier):
    out = [Job('block', 'chacha.cpp', 'h_c09_block', [0], reach=['block'], bounds='every key, nonce, counter and 64-byte input', timeout=1500, solver_timeout_ms=600000),
           Job('vectors', 'chacha.cpp', 'h_c09_vectors', [0], reach=['vectors'], bounds='RFC 8439 test vectors')]
    lens = [0, 1, 63, 64, 65, 127, 128, 129] if tier == 'quick' else list(range(0, 201))
    for n in lens:
        out.append(Job('stream-len%d' % n, 'chacha.cpp', 'h_c09_stream', [n], reach=['stream'], redirect=R, bounds='input %d B, counter fully symbolic' % n))
    for n in ([0, 1, 64, 70] if tier == 'quick' else [0, 1, 2, 33, 63, 64, 65, 70, 128, 130]):
        out.append(Job('manager-len%d' % n, 'chacha.cpp', 'h_c09_manager', [n], reach=['manager'], redirect=R, bounds='payload %d B' % n))
    return out
