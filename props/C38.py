from check import Job
import itertools
EXPLANATION = 'parse_update_metadata: JSON string decoding (raw bytes, simple escapes, \\uXXXX, surrogate pairs; digits and bytes symbolic) against an RFC 8259 reference; totality and memory safety on arbitrary exact-size byte buffers; recursion depth bounded independently of input nesting'
ASSUMPTIONS = ['string jobs: the "version" field holds up to 3 items, each of a fixed kind per job (raw byte >= 0x20 / simple escape with a symbolic escape character / \\uXXXX with 4 symbolic digit bytes / a surrogate pair with 8 symbolic digit bytes); the rest of the document is a fixed valid one; lone surrogates are outside the claim (RFC 8259 leaves them undefined)',
               'totality jobs: every byte string of length 0..4 (quick) / 0..6 (thorough) in an exact-size heap buffer, plus length-6/8 buffers starting with the given structural byte; longer inputs are outside the bound',
               'number jobs: numeric literals of the listed lengths (powers of two and their neighbours; every length 1..69 on thorough) in four forms (plain, signed, fraction, exponent)', 'depth jobs: 3000 nested "[" / {"a": openers; the engine flags more than 400 call frames, the native replay runs the parser on a 512 KiB stack',
               'strtod is modelled as consuming the whole (already scanned) number text; errno is a harness object; std::isdigit is the "C" locale predicate; libcurl entry points are never reached']
def jobs(tier):
    out = []
    shapes = [(1, 0, 0), (2, 0, 0), (3, 0, 0), (4, 0, 0), (1, 3, 1), (2, 4, 1)] if tier == 'quick' else [s for s in itertools.product((0, 1, 2, 3, 4), repeat=3) if s[0] != 0 and not (s[1] == 0 and s[2] != 0) and sum(1 for x in s if x >= 3) <= 1]
    for s in shapes:
        out.append(Job('string-%d%d%d' % s, 'json.cpp', 'h_c38_string', list(s), extra_units=['strinst.cpp'], reach=['decoded'], timeout=1500, max_paths=500000, bounds='item kinds %s' % (s,)))
    for n in range(0, (4 if tier == 'quick' else 5) + 1):
        out.append(Job('total-len%d' % n, 'json.cpp', 'h_c38_total', [n, 0], extra_units=['strinst.cpp'], reach=['error'], timeout=1500, max_paths=2000000, bounds='every %d-byte input' % n))
    for first in (0x7b, 0x5b, 0x22, 0x2d):
        out.append(Job('total-len%d-first%02x' % (5 if tier == 'quick' else 6, first), 'json.cpp', 'h_c38_total', [5 if tier == 'quick' else 6, first], extra_units=['strinst.cpp'], reach=['error'], timeout=3000, max_paths=2000000, bounds='inputs starting with byte 0x%02x' % first))
    for n in ((1, 2, 15, 16, 17, 31, 32, 33, 63, 64, 65, 255, 256, 257) if tier == 'quick' else list(range(1, 70)) + [127, 128, 129, 255, 256, 257, 1023, 1024, 1025]):
        out.append(Job('number-len%d' % n, 'json.cpp', 'h_c38_number', [n], extra_units=['strinst.cpp'], reach=[], timeout=1500, bounds='numeric literal of %d characters' % n))
    for opener in (0, 1):
        out.append(Job('depth-%d' % opener, 'json.cpp', 'h_c38_depth', [3000, opener], extra_units=['strinst.cpp'], reach=[], max_steps=80_000_000, timeout=1500, bounds='3000 nested openers'))
    return out
