from check import Job
EXPLANATION = 'leading-zero counters vs a bit-level reference for every 32-byte digest and difficulty; store PoW acceptance and hashed field encoding'
ASSUMPTIONS = ['Sha256 replaced by a recording stub that returns a solver-chosen digest: the claim is about the acceptance predicate and the byte encoding fed to the hash, composed with C08 for the hash itself',
               'units encoded: security/StoreProof.cpp and bootstrap/TokenChallenge.cpp. core/Node.cpp contributes its count_leading_zero_bits copy. The handshake/announce digest encodings inside core/Node.cpp and everything in main.cpp (CLI solvers, its counter copy) are NOT encoded: outside the claim',
               'store solver: the PRNG seed digest is concrete (a symbolic Mersenne-Twister state is out of reach), candidate digests symbolic; filename lengths 0..3 (quick) / 0..8 (thorough); the PoW solver loops (compute_store_pow, solve_token_challenge) are not claimed: their harnesses did not finish within the budget in this engine']
def jobs(tier):
    out = [Job('counters-nz%d' % z, 'pow.cpp', 'h_c19_counters', [z], reach=['counted'], bounds='every digest whose byte %d is non-zero (leading zeros < %d) x 256 difficulties' % (z, 8 * z + 8) if z < 32 else 'every 32-byte digest x 256 difficulties', enum_cap=300, timeout=1500) for z in ((4,) if tier == 'quick' else (4, 32))]
    for f in ((0, 1, 3) if tier == 'quick' else (0, 1, 2, 3, 8)):
        out.append(Job('store-f%d' % f, 'pow.cpp', 'h_c19_store', [f], reach=['hashed'], bounds='filename %d B, everything else symbolic' % f))
    for z in ((4,) if tier == 'quick' else (4, 32)):
        out.append(Job('node-counter-nz%d' % z, 'node_leaf.cpp', 'h_c19_node_counter', [z], reach=['counted'], bounds='core/Node.cpp counter, first non-zero byte within %d bytes' % (z + 1), timeout=1500))
    # the handshake gate uses the PoW verdict of THIS (key, nonce): histories of handshakes through the real perform_handshake (shared with C20)
    from props.C20 import SN as SN20, R as R20
    out.append(Job('handshake-history-pow-k3', 'node_hs.cpp', 'h_c20_history_pow', [3], defines=['VERIF_POW_STUB=1'], reach=['accepted', 'rejected'], snippets=SN20, redirect=R20, timeout=2400, bounds='3 handshakes of one claimed peer through Node::perform_handshake with a stand-in PoW predicate'))
    return out
