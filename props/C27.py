from check import Job
from props.ctrl_snips import SN, R
EXPLANATION = 'the control-plane handlers handle_stop / handle_store / handle_fetch (lifted from the current daemon/ControlServer.cpp into a class with a recording node and a recording send_response): with a control token configured, a request without the exact token gets an *_UNAUTHENTICATED error and has no effect - nothing is stored, registered, fetched, written or stopped'
ASSUMPTIONS = ['the handlers, rate kernels, constants and helpers are lifted textually; ControlServer::Impl itself (sockets, accept thread), recv_line / parse_request and handle_client\'s dispatch are NOT encoded: requests are handed over as ParsedRequest',
               'configured token "tok"; offered token absent, or 2 / 3 / 4 / 259 (thorough also 515) fully symbolic bytes different from it; Node calls, file writes, the stop callback and the response are recorded by the harness',
               'std::filesystem::absolute / path splitting are stubs; logging is cut']
def jobs(tier):
    out = []
    for cmd, name in ((0, 'stop'), (1, 'store'), (2, 'fetch-out'), (3, 'fetch-stream')):
        for tf in ((0, 1, 2, 3, 4) if tier == 'quick' else (0, 1, 2, 3, 4, 5)):
            out.append(Job('%s-token%d' % (name, tf), 'ctrl.cpp', 'h_c27_gate', [cmd, tf], reach=['refused'], snippets=SN, redirect=R, stream_sink=True, timeout=1500, bounds='%s, token form %d' % (name, tf)))
        out.append(Job('%s-exact-token' % name, 'ctrl.cpp', 'h_c27_open', [cmd], reach=['accepted'], snippets=SN, redirect=R, stream_sink=True, timeout=1500, bounds='%s with the exact token' % name))
    # the same gate end to end: request bytes through the real recv_line / parse_request / handle_client dispatch of the whole unit
    RW = {'^_ZNSt10filesystem7__cxx114path14_M_split_cmptsEv$': 'h_path_split_stub4', '?^_ZNSt10filesystem8absoluteERKNS_7__cxx114pathE$': 'h_fs_absolute4', '?^_ZNKSt10filesystem7__cxx114path11parent_pathEv$': 'h_fs_parent_empty4', '?^_ZNSt10filesystem8absoluteERKNS_7__cxx114pathERSt10error_code$': 'h_fs_absolute_ec4'}
    for cmd, name in ((0, 'stop'), (1, 'store'), (2, 'fetch-out'), (3, 'fetch-stream')):
        for tf in (0, 1, 2, 3, 4):
            out.append(Job('wire-%s-token%d' % (name, tf), 'ctrl_full.cpp', 'h_c27_wire', [cmd, tf], reach=['refused'], redirect=RW, timeout=1500, bounds='%s as request bytes (symbolic letter case, header order), token form %d' % (name, tf)))
        out.append(Job('wire-%s-exact-token' % name, 'ctrl_full.cpp', 'h_c27_wire_open', [cmd], reach=['accepted'], redirect=RW, timeout=1500, bounds='%s as request bytes with the exact token' % name))
    return out
