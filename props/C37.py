from check import Job
EXPLANATION = 'StructuredLogger::log and its escaping on events, field names and values whose bytes are all symbolic (every control byte, quote and backslash inside): the record is exactly one line of valid JSON whose strings decode back, through an RFC 8259 un-escaper, to exactly the strings that were logged'
ASSUMPTIONS = ['in the engine std::ostringstream and std::clog are replaced at the source level by the small sink classes of harness/logger.cpp (width / fill / hex / uppercase honoured as the logger sets them); natively nothing is replaced: the real iostreams run and std::clog is captured, so every native replay validates the sink model',
               'symbolic bytes are ASCII (< 0x80), with a fixed valid 2-byte UTF-8 sequence appended to the event: the escaper passes bytes >= 0x80 through unchanged, so arbitrary valid UTF-8 follows from the per-byte behaviour; invalid UTF-8 input is outside the statement',
               'event of 1..2 symbolic bytes and 0..1 fields with 1-byte symbolic key/value (quick); up to 3 bytes and 2 fields (thorough); the timestamp text (std::put_time) is a fixed string in the engine']
def jobs(tier):
    shapes = [(1, 0, 0), (2, 0, 0), (1, 1, 1)] if tier == 'quick' else [(1, 0, 0), (2, 0, 0), (3, 0, 0), (1, 1, 1), (1, 2, 1), (2, 1, 2)]
    return [Job('log-e%d-f%d-l%d' % s, 'logger.cpp', 'h_c37_log', list(s), reach=['logged'], timeout=1500, max_paths=2000000, bounds='event %d symbolic bytes, %d fields of %d-byte key/value' % s) for s in shapes]
