from check import Job
EXPLANATION = 'the real RelayServer (whole unit) driven through on_client_event with a model of the sockets: over every sequence of k events drawn from REGISTER / data / disconnect of a registrant and CONNECT / identity+data / disconnect of two connectors, pairings stay symmetric, a registered peer has at most one connector, a closed bridge side takes its partner down, and relayed bytes reach only the bridge partner, in order'
ASSUMPTIONS = ['relay/RelayServer.cpp is included whole; EventLoop (epoll) members are recording stubs, recv/send/close are the harness (input queues with EAGAIN, captured output); sessions are created as accept_new_clients() does, without accept()',
               'three clients with fixed peer ids (the registrant X and two connectors), messages well-formed; event sequences of length 4 (quick) / 5 (thorough), every choice symbolic (9 events per step); arbitrary byte streams are C26',
               'peer_id_to_string / peer_id_from_string are the hex models of stdmodels.h (compared with the real functions on every native replay)']
def jobs(tier):
    k = 4 if tier == 'quick' else 5
    return [Job('pairing-k%d-first%d' % (k, f), 'relay.cpp', 'h_c25_pairing', [k, f], reach=['history'] + (['bridged'] if f == 0 else []), timeout=3000, max_paths=2000000, bounds='every sequence of %d events starting with event %d' % (k, f)) for f in range(9)]
