from check import Job
EXPLANATION = 'decode(encode(m)) == m for every message type; version symbolic over 0..255; ids/scalars fully symbolic; string/list lengths fanned out'
ASSUMPTIONS = ['message type field agrees with the payload alternative (the statement quantifies over messages "of each type")',
               'string/list lengths 0..3 (quick) / 0..5 (thorough); contents fully symbolic; allocation failure out of scope']
def jobs(tier):
    n = 3 if tier == 'quick' else 5
    out = []
    shapes = [(0, 0, 0), (1, 0, 0), (0, 2, 0), (0, 0, 1), (1, 1, 1), (n, n, n)] if tier == 'quick' else \
             [(e, m, a) for e in (0, 1, n) for m in (0, 2, n) for a in (0, 1, n)]
    for e, m, a in shapes:
        out.append(Job('announce-%d-%d-%d' % (e, m, a), 'msg.cpp', 'h_c15_roundtrip', [1, e, m, a], reach=['roundtrip-checked'],
                       bounds='Announce, endpoint %d B, manifest %d B, %d assigned shards, version 0..255' % (e, m, a)))
    for t in (2, 4, 5, 6):
        out.append(Job('type%d' % t, 'msg.cpp', 'h_c15_roundtrip', [t, 0, 0, 0], reach=['roundtrip-checked'], bounds='type %d, all fields symbolic' % t))
    for d in ((0, 1, n) if tier == 'quick' else (0, 1, 2, n, 9)):
        out.append(Job('chunk-%d' % d, 'msg.cpp', 'h_c15_roundtrip', [3, d, 0, 0], reach=['roundtrip-checked'], bounds='Chunk, %d data bytes' % d))
    return out
