from check import Job
import itertools
EXPLANATION = 'histories of put / get / get_record / sweep_expired / snapshot on the real ChunkStore (real unordered_map) over two chunk ids with a symbolic steady clock; a deadline oracle decides every lookup, including lookups exactly at the deadline'
ASSUMPTIONS = ['steady_clock::now is the harness clock: arbitrary start below 2^60 ns, arbitrary non-negative advance (<= 2^50 ns) before every step',
               'std::_Hash_bytes and the rehash policy are the harness models of harness/include/stdmodels.h; chunk_id_to_string is the lower-case hex model (compared with the real function on every native replay)',
               'requested TTL within +-2^31 s, default TTL within [1, 86400] s (the range sanitize_config produces), payload 1 or 2 symbolic bytes, persistence off',
               'every operation sequence of length 3 (quick) / 4 (thorough) that starts with a store, one job per sequence; which of the two chunk ids each step addresses is symbolic',
               'Node-level listing (stored_chunks) and peer-request paths are checked in job node-listing on a partial Node (see harness/node_store.cpp)']
OPS = 'PGRSL'   # put, get, get_record, sweep, list(snapshot)
def jobs(tier):
    k = 3 if tier == 'quick' else 4
    out = []
    for tail in itertools.product(range(5), repeat=k - 1):
        ops = (0,) + tail
        seq = sum(o * 5 ** i for i, o in enumerate(ops))
        name = 'hist-' + ''.join(OPS[o] for o in ops)
        reach = ['put'] + (['get-live'] if ops[1] == 1 else [])
        out.append(Job(name, 'store.cpp', 'h_c01_history', [k, seq], reach=reach, bounds='operation sequence %s, all arguments symbolic' % name[5:], timeout=1500 if tier == 'quick' else 3300))
    return out
