from check import Job
import itertools
EXPLANATION = 'histories of put / get / get_record / sweep_expired / snapshot on the real ChunkStore (real unordered_map) over two chunk ids with a symbolic steady clock; a deadline oracle decides every lookup, including lookups exactly at the deadline'
ASSUMPTIONS = ['steady_clock::now is the harness clock: event times on a 1/8 s grid, advance 0..127 eighths (< 16 s) before every step; deadlines are event times plus whole seconds, so every real-valued schedule of <= 8 events is order-isomorphic to one on this grid (magnitudes bounded, orderings not)',
               'std::_Hash_bytes and the rehash policy are the harness models of harness/include/stdmodels.h; chunk_id_to_string is the lower-case hex model (compared with the real function on every native replay)',
               'requested TTL in [-8, 247] s, default TTL in [1, 256] s (TTL window arithmetic for the full 64-bit range is C02), payload 1 or 2 symbolic bytes, persistence off',
               'every operation sequence of length 3 (quick) / 4 (thorough) that starts with a store, one job per sequence; which of the two chunk ids each step addresses is symbolic',
               'Node-level listing (stored_chunks) and peer-request paths are checked in job node-listing on a partial Node (see harness/node_store.cpp)']
OPS = 'PGRSL'   # put, get, get_record, sweep, list(snapshot)
def jobs(tier):
    k = 3 if tier == 'quick' else 4
    out = []
    for tail in itertools.product(range(5), repeat=k - 1):
        ops = (0,) + tail
        seq = sum(o * 5 ** i for i, o in enumerate(ops))
        name = 'hist-' + ''.join(OPS[o] for o in ops)
        reach = ['put'] + (['get-live'] if ops[1] == 1 else [])
        out.append(Job(name, 'store.cpp', 'h_c01_history', [k, seq], reach=reach, bounds='operation sequence %s, all arguments symbolic' % name[5:], timeout=1500 if tier == 'quick' else 3300))
    return out
