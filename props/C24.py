from check import Job
from props.node_snips import SN
import itertools
EXPLANATION = 'fetch scheduling kernels of Node on a partial Node: the retry delay is the initial back-off doubled per attempt up to the maximum (with the documented fallbacks for non-positive settings) and no attempt is scheduled once the limit is exhausted; per-peer in-flight counters equal the outstanding requests and never exceed the limit over every sequence of pending / dispatch / clear events'
ASSUMPTIONS = ['schedule_next_fetch_attempt, can_dispatch_fetch, note_dispatch_start/end, clear_pending_fetch are lifted textually from the current core/Node.cpp and compiled against the real class declaration; only the members they touch exist',
               'schedule_assigned_fetch and dispatch_pending_fetch are lifted as well (decode_manifest supplied by the harness, role ledger / provider refresh / transport sends cut to stubs with arbitrary send outcome); process_pending_fetches (retry timing, manifest expiry, held-locally drop) is NOT encoded: those clauses are outside this check',
               'back-off settings in [-5, 86400] s, attempts 0..12, attempt limit 0..255; fetch-slot sequences of 4 (quick) / 6 (thorough) events over two chunks of one peer, limit 0..3']
def jobs(tier):
    k = 4 if tier == 'quick' else 6
    # the real process_pending_fetches: quick = one announcement followed by every two-event continuation of ticks / arrivals, and two
    # announcements in a row; thorough = additionally the 3-event sequences with a second announcement
    def tj(ops):
        name = ''.join('ATC'[o] for o in ops)
        return Job('ticks-' + name, 'node_kern.cpp', 'h_c24_ticks', [len(ops), sum(o * 3 ** i for i, o in enumerate(ops))], defines=['VERIF_REAL_PPF=1'], reach=['announce'], snippets=SN, timeout=3000 if tier == 'quick' else 5000,
                   bounds='events %s (announcement / tick / arrival) with the real process_pending_fetches, 2 peers x 2 chunks, symbolic retry settings, send outcomes, clock and manifest expiry' % name)
    if tier == 'quick': seqs = [(0, 0)] + [(0, a, b) for a in (1, 2) for b in (1, 2)]
    else: seqs = [(0, 0)] + [(0, a, b) for a in (1, 2) for b in (1, 2)] + [(0, 0, 1), (0, 0, 2), (0, 1, 0), (0, 2, 0)]      # every 3-event sequence with at most two announcements (AAA and longer sequences exceed an hour)
    ticks = [tj(ops) for ops in seqs]
    return [Job('backoff', 'node_kern.cpp', 'h_c24_backoff', [0], reach=['success', 'exhausted', 'backoff'], snippets=SN, timeout=1500, bounds='every setting / attempt count in range'),
            ] + [Job('reannounce-' + ''.join('ADC'[o] for o in ops), 'node_kern.cpp', 'h_c24_reannounce', [3, sum(o * 3 ** i for i, o in enumerate(ops))], reach=['announce'], snippets=SN, timeout=1500, bounds='events %s (announce/dispatch/arrival), 2 peers x 2 chunks' % ''.join('ADC'[o] for o in ops)) for ops in itertools.product(range(3), repeat=3) if ops[0] == 0] + [
            Job('fetch-slots-k%d' % k, 'node_kern.cpp', 'h_c24_fetch_slots', [k], reach=['dispatched', 'cleared'], snippets=SN, timeout=3000, bounds='%d events' % k)] + ticks
