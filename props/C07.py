from check import Job
EXPLANATION = 'bucket index kernel for two fully symbolic 256-bit ids; closest-peer queries over symbolic contacts, expiries, target and limit against an XOR-distance oracle; bucket shape after sequences of registrations/refreshes'
ASSUMPTIONS = ['steady_clock::now is the harness clock', 'closest-peer query: n <= 3 contacts whose ids are symbolic in bytes 30 and 31 (byte 0 fixes the bucket class: all in one bucket, or one bucket each), target symbolic in bytes 0, 30, 31, limit 0..5, expiries within +-10 s of the query time',
               'shape: k registrations of ids drawn from 12 candidates in 3 bucket classes including the local id, symbolic addresses/expiries/clock advances; overflow: 17 distinct contacts of bucket 255',
               'ids differing only in bytes 1..29 follow the same code path; the kernel job covers them for the index function']
def jobs(tier):
    out = [Job('bucket-index', 'dht.cpp', 'h_c07_bucket_index', [0], reach=['indexed', 'self'], bounds='all pairs of 256-bit ids', timeout=1500),
           Job('closest-n2-same', 'dht.cpp', 'h_c07_closest', [2, 1], reach=['answered', 'empty'], bounds='2 contacts in one bucket', timeout=1500),
           Job('closest-n2-diff', 'dht.cpp', 'h_c07_closest', [2, 0], reach=['answered', 'empty'], bounds='2 contacts in two buckets', timeout=1500),
           Job('closest-n3-low-concrete', 'dht.cpp', 'h_c07_closest', [3, 3], reach=['answered', 'empty'], bounds='3 concrete live contacts in the three buckets below the top one; target (bytes 0, 30, 31) and limit symbolic', timeout=1500),
           Job('closest-n2-low', 'dht.cpp', 'h_c07_closest', [2, 2], reach=['answered', 'empty'], bounds='2 contacts in the two buckets below the top one', timeout=1500),
           Job('shape-k2', 'dht.cpp', 'h_c07_shape', [2], reach=['shape-checked'], bounds='2 registrations', timeout=1500),
           Job('overflow', 'dht.cpp', 'h_c07_overflow', [0], reach=['overflowed'], bounds='17 contacts in bucket 255', timeout=1500)]
    if tier == 'thorough':
        out += [Job('closest-n3-same', 'dht.cpp', 'h_c07_closest', [3, 1], reach=['answered', 'empty'], bounds='3 contacts in one bucket', timeout=3300),
                Job('closest-n3-diff', 'dht.cpp', 'h_c07_closest', [3, 0], reach=['answered', 'empty'], bounds='3 contacts in three buckets', timeout=3300),
                Job('closest-n3-low', 'dht.cpp', 'h_c07_closest', [3, 2], reach=['answered', 'empty'], bounds='3 contacts in the three buckets below the top one', timeout=3300),
                Job('shape-k3', 'dht.cpp', 'h_c07_shape', [3], reach=['shape-checked'], bounds='3 registrations', timeout=3300)]
    return out
