from check import Job
EXPLANATION = 'base64 round trip against RFC 4648 for every byte string of the listed lengths; decode_manifest(encode_manifest(m)) == m for manifests with symbolic contents and the listed shapes; manifests with an over-long string or more than 255 entries in a counted list are refused instead of truncated'
ASSUMPTIONS = ['binary-layer jobs replace base64_encode/base64_decode by the identity on bytes (engine redirect); the base64 pair itself is checked in jobs b64-len*; natively the real pair runs',
               'round-trip shapes: 0..2 shards, 0..2 metadata entries (keys of distinct lengths, symbolic contents), 0..1 discovery+fallback hint, strings of 0..2 symbolic bytes (quick) / up to 3 and two hints (thorough); expiry < 2^33 s with arbitrary sub-second part',
               'limit jobs: concrete contents at the sizes 255/256 (counts, key, scheme, transport) and 65535/65536 (value, endpoint, uri, advisory); std::map primitives are the unbalanced-tree models of harness/include/rbtree_models.h',
               'expiry beyond the representable system_clock range is C18']
R = {r'base64_encode(B5cxx11)?ERKSt6vectorIhSaIhEE$': 'h_b64_encode_identity', r'base64_decodeERKNSt7__cxx1112basic_string': 'h_b64_decode_identity'}
def jobs(tier):
    out = []
    for n in ((0, 1, 2, 3, 4, 5, 6) if tier == 'quick' else range(0, 10)):
        out.append(Job('b64-len%d' % n, 'manifest.cpp', 'h_c17_base64', [n], reach=['b64'], bounds='every %d-byte input' % n, timeout=1500))
    shapes = [(0, 0, 0, 0), (1, 0, 0, 1), (2, 1, 0, 1), (0, 2, 0, 2), (1, 1, 1, 1), (0, 0, 1, 0), (0, 0, 1, 2)] if tier == 'quick' else [(s, m, h, l) for s in (0, 1, 2) for m in (0, 1, 2) for h in (0, 1, 2) for l in (0, 1, 3)]
    for s in shapes:
        out.append(Job('rt-%d-%d-%d-%d' % s, 'manifest.cpp', 'h_c17_roundtrip', list(s), reach=['roundtrip'], redirect=R, timeout=1500, bounds='%d shards, %d metadata entries, %d hints, strings of %d B' % s))
    for which, sizes in ((0, (255, 256, 300)), (1, (255, 256)), (2, (255, 256)), (3, (255, 256)), (4, (255, 256)), (9, (255, 256)), (10, (255, 256)), (5, (65535, 65536)), (6, (65535, 65536)), (7, (65535, 65536)), (8, (65535, 65536))):
        for n in sizes:
            out.append(Job('limit-%d-%d' % (which, n), 'manifest.cpp', 'h_c17_limits', [which, n], reach=['accepted'] if n in (255, 65535) else ['refused'], redirect=R, timeout=1500, max_steps=60_000_000, bounds='field %d at size %d' % (which, n)))
    return out
