from check import Job
EXPLANATION = 'manifest_ttl for every expiry, wall-clock reading and sanitised window: the derived lifetime never extends beyond the manifest expiry, lies in [min, max], and only expired / too-short manifests are rejected; Node::ingest_manifest (lifted, partial Node with the real KademliaTable) changes state only on acceptance and the cached key shares then expire no later than the manifest'
ASSUMPTIONS = ['manifest_ttl, enforce_manifest_ttl, validate_shards and Node::ingest_manifest are lifted textually from the current core/Node.cpp; protocol::decode_manifest is supplied by the harness (returns the harness-built manifest or throws; the codec is C17/C18); update_swarm_plan is a recording stub',
               'key shares (ingest_manifest, handle_announce), provider contacts (handle_announce: jobs announce-*, harness/node_announce.cpp) and replica copies / self-announcements (receive_chunk: job replica-*, harness/node_recv.cpp) are decided; pending fetches dropped at manifest expiry are decided in C24 (ticks-*); cached manifests / swarm plans in C05',
               'the TTL window is assumed sanitised (1 <= min <= max <= 86400 s, C02); kernel job: expiry and wall clock < 2^33 s with arbitrary sub-second parts; ingest job: wall clock and expiry whole seconds below 1024 s, window 1..255 s, 0..2 shards, symbolic threshold',
               'the steady and the system clock are read at the same instant inside one call (the harness does not advance them between reads)']
SN = {'SNIP_K_MIN_TTL': ('src/core/Node.cpp', 're:^constexpr std::chrono::seconds kMinAllowedManifestTtl'), 'SNIP_ENFORCE_TTL': ('src/core/Node.cpp', 'enforce_manifest_ttl'), 'SNIP_MANIFEST_TTL': ('src/core/Node.cpp', 'manifest_ttl'), 'SNIP_VALIDATE_SHARDS': ('src/core/Node.cpp', 'validate_shards'), 'SNIP_INGEST': ('src/core/Node.cpp', 're:^[A-Za-z_:<>, 0-9]*\\bNode::ingest_manifest\\(')}
def jobs(tier):
    out = [Job('ttl-kernel', 'node_ingest.cpp', 'h_c03_ttl_kernel', [0], reach=['accepted', 'rejected'], snippets=SN, timeout=1500, bounds='all expiries / wall clocks < 2^33 s, all sanitised windows')]
    for s in ((0, 2) if tier == 'quick' else (0, 1, 2, 3)):
        out.append(Job('ingest-shards%d' % s, 'node_ingest.cpp', 'h_c03_ingest', [s], reach=['rejected'] + (['ingested'] if s else []), snippets=SN, timeout=1500, bounds='%d shards' % s))
    # provider contacts and key shares learned from an ANNOUNCE (the real handle_announce, shared with C21) and replica copies
    # (the real receive_chunk, shared with C11) expire no later than the manifest
    from props.C21 import SNA
    for ns, pc in (((2, 0),) if tier == 'quick' else ((1, 0), (2, 0), (1, 1))):
        out.append(Job('announce-s%d-c%d' % (ns, pc), 'node_announce.cpp', 'h_c21_announce', [ns, pc], reach=['admitted', 'refused'], snippets=SNA, timeout=3000, bounds='one ANNOUNCE through the real handle_announce, %d shares, announced TTL 0..255 s, manifest life -4..59 s' % ns))
    from props.C11 import SN as SN11
    out.append(Job('replica-s1-l1', 'node_recv.cpp', 'h_c11_receive', [1, 1], reach=['refused', 'imported'], snippets=SN11, timeout=1500, bounds='one replica import through the real receive_chunk, 1 share, 1 ciphertext byte'))
    return out
