from check import Job
EXPLANATION = 'manifest_ttl for every expiry, wall-clock reading and sanitised window: the derived lifetime never extends beyond the manifest expiry, lies in [min, max], and only expired / too-short manifests are rejected; Node::ingest_manifest (lifted, partial Node with the real KademliaTable) changes state only on acceptance and the cached key shares then expire no later than the manifest'
ASSUMPTIONS = ['manifest_ttl, enforce_manifest_ttl, validate_shards and Node::ingest_manifest are lifted textually from the current core/Node.cpp; protocol::decode_manifest is supplied by the harness (returns the harness-built manifest or throws; the codec is C17/C18); update_swarm_plan is a recording stub',
               'ONLY the key-share clause and the rejection clause are decided: provider contacts (handle_announce), replica copies (receive_chunk) and pending fetches (process_pending_fetches) are not encoded',
               'the TTL window is assumed sanitised (1 <= min <= max <= 86400 s, C02); kernel job: expiry and wall clock < 2^33 s with arbitrary sub-second parts; ingest job: wall clock and expiry whole seconds below 1024 s, window 1..255 s, 0..2 shards, symbolic threshold',
               'the steady and the system clock are read at the same instant inside one call (the harness does not advance them between reads)']
SN = {'SNIP_K_MIN_TTL': ('src/core/Node.cpp', 're:^constexpr std::chrono::seconds kMinAllowedManifestTtl'), 'SNIP_ENFORCE_TTL': ('src/core/Node.cpp', 'enforce_manifest_ttl'), 'SNIP_MANIFEST_TTL': ('src/core/Node.cpp', 'manifest_ttl'), 'SNIP_VALIDATE_SHARDS': ('src/core/Node.cpp', 'validate_shards'), 'SNIP_INGEST': ('src/core/Node.cpp', 're:^[A-Za-z_:<>, 0-9]*\\bNode::ingest_manifest\\(')}
def jobs(tier):
    out = [Job('ttl-kernel', 'node_ingest.cpp', 'h_c03_ttl_kernel', [0], reach=['accepted', 'rejected'], snippets=SN, timeout=1500, bounds='all expiries / wall clocks < 2^33 s, all sanitised windows')]
    for s in ((0, 2) if tier == 'quick' else (0, 1, 2, 3)):
        out.append(Job('ingest-shards%d' % s, 'node_ingest.cpp', 'h_c03_ingest', [s], reach=['rejected'] + (['ingested'] if s else []), snippets=SN, timeout=1500, bounds='%d shards' % s))
    return out
