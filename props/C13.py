from check import Job
EXPLANATION = 'decode_signed accepts exactly when HmacSha256::verify(key, all-but-last-32, last-32) holds and the prefix decodes; encode_signed = encode || HMAC(key, encode)'
ASSUMPTIONS = ['HmacSha256::compute/verify replaced by recording stubs with nondeterministic results: the MAC function itself is decided in C08 (composition)',
               'buffer lengths are the listed values; contents, key and MAC verdict fully symbolic']
def jobs(tier):
    out = []
    lens = [0, 1, 31, 32, 33, 34, 40, 46, 47, 48, 98, 99, 75, 77] + ([114, 122, 123, 125] if tier == "thorough" else [115])
    for n in lens:
        out.append(Job('dec-len%d' % n, 'msg.cpp', 'h_c13_decode_signed', [n], reach=['short'] if n < 32 else ['mac-rejected'], bounds='signed buffer %d B' % n))
    for t, e in ((2, 0), (3, 0), (3, 3), (5, 0)):
        out.append(Job('enc-type%d-%d' % (t, e), 'msg.cpp', 'h_c13_encode_signed', [t, e], reach=['signed'], bounds='type %d, %d data bytes' % (t, e)))
    return out
