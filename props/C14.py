from check import Job
EXPLANATION = 'the framing of network/SessionManager.cpp with the sockets modelled: send_encrypted emits nonce || big-endian length || ChaCha20 ciphertext for every payload within the limit and nothing above 1 MiB; receive_loop hands every frame to the handler once, byte for byte and in order, and an announced length above 1 MiB ends the session without reading the body'
ASSUMPTIONS = ['network/SessionManager.cpp is included whole; recv/send/close/shutdown are the harness (recv plays back the frames, returns 0 at the end); all std::cerr / std::ostringstream logging goes to a sink; the reader threads, accept loop, handshake exchange and TCP delivery/ordering itself are NOT encoded',
               'setsockopt(SO_RCVTIMEO) is modelled for the accepted-* jobs: while a receive timeout is armed, recv() may fail with EAGAIN at any point after the handshake (the peer pausing longer than the timeout); disarmed, recv() waits', 'SessionManager::send has the same framing code as send_encrypted but needs a registered session; only send_encrypted is driven on the sender side',
               'payload lengths 0..3 symbolic bytes (quick) / up to 70 (thorough), 1-2 frames, symbolic key and nonces; "fresh nonce" is represented by the nonce being whatever std::random_device returns (symbolic)']
def jobs(tier):
    out = [Job('send-len%d' % n, 'session.cpp', 'h_c14_send', [n], reach=['sent'], stream_sink=True, timeout=1500, bounds='payload %d B' % n) for n in ((0, 1, 3) if tier == 'quick' else (0, 1, 3, 63, 64, 65, 70))]
    out += [Job('send-oversize-%d' % e, 'session.cpp', 'h_c14_send_oversize', [e], reach=['refused'], stream_sink=True, timeout=1500, bounds='payload of 2^20 + %d bytes' % e) for e in (1, 4096)]
    for nf, ln, tr in (((1, 2, 0), (2, 1, 0), (1, 1, 1), (0, 0, 1)) if tier == 'quick' else ((1, 0, 0), (1, 2, 0), (2, 1, 0), (2, 3, 1), (1, 1, 1), (0, 0, 1), (1, 65, 0))):
        out.append(Job('recv-f%d-l%d-t%d' % (nf, ln, tr), 'session.cpp', 'h_c14_receive', [nf, ln, tr], reach=['received'], stream_sink=True, timeout=1500, bounds='%d frames of %d B%s' % (nf, ln, ', then an oversized length field' if tr else '')))
    for nf, ln in (((2, 1),) if tier == 'quick' else ((1, 0), (2, 1), (3, 2))):
        out.append(Job('accepted-f%d-l%d' % (nf, ln), 'session.cpp', 'h_c14_accepted', [nf, ln], reach=['accepted-session'], stream_sink=True, timeout=1500, bounds='inbound session: read_handshake_payload with its 2000 ms timeout, then %d frames of %d B with arbitrary pauses (receive timeout modelled)' % (nf, ln)))
    return out
