from check import Job
EXPLANATION = 'the cleanup branch of Node::tick with audit_ttl and drain_cleanup_notifications (lifted onto a partial Node with the real ChunkStore and KademliaTable): after a cleanup tick at or after a chunk\'s deadline none of record, self-announcement, locator, key shares, cached manifest, swarm plan remains, the audit is healthy and the expiry is reported exactly once, also when a lookup noticed it first'
ASSUMPTIONS = ['Node::tick, audit_ttl, drain_cleanup_notifications, retire_swarm_ledger, announce_chunk, export_chunk_record are lifted textually from the current core/Node.cpp; rebalance_swarm_plans, process_pending_uploads/fetches and rotate_session_keys (the non-cleanup part of tick) are cut to no-ops',
               'pre-state: one local chunk with everything Node::store_chunk leaves behind, built by the harness with one TTL (1..16 s); cleanup interval 1..8 s; event times on the 1/8 s grid; wall clock in step with the steady clock',
               'histories: optional lookup, then 1 (quick) / 2 (thorough) ticks; chunks learned from other peers (announce-derived manifests) are not part of the pre-state']
SN = {'SNIP_RETIRE_LEDGER': ('src/core/Node.cpp', 're:^[A-Za-z_:<>, 0-9]*\\bNode::retire_swarm_ledger\\('), 'SNIP_ANNOUNCE_CHUNK': ('src/core/Node.cpp', 're:^[A-Za-z_:<>, 0-9]*\\bNode::announce_chunk\\('), 'SNIP_EXPORT_RECORD': ('src/core/Node.cpp', 're:^[A-Za-z_:<>, 0-9]*\\bNode::export_chunk_record\\('), 'SNIP_DRAIN': ('src/core/Node.cpp', 're:^[A-Za-z_:<>, 0-9]*\\bNode::drain_cleanup_notifications\\('), 'SNIP_AUDIT': ('src/core/Node.cpp', 're:^[A-Za-z_:<>, 0-9]*\\bNode::audit_ttl\\('), 'SNIP_TICK': ('src/core/Node.cpp', 're:^[A-Za-z_:<>, 0-9]*\\bNode::tick\\(')}
def jobs(tier):
    out = []
    for lk in (0, 1):
        for nt in ((1,) if tier == 'quick' else (1, 2)):
            out.append(Job('cleanup-lookup%d-ticks%d' % (lk, nt), 'node_tick.cpp', 'h_c05_cleanup', [lk, nt], reach=['cleaned'] + (['expiry-noticed-by-lookup'] if lk else []), snippets=SN, timeout=1500, bounds='%s lookup, %d tick(s)' % ('one' if lk else 'no', nt)))
    for nt in (2,):
        out.append(Job('contacts-ticks%d' % nt, 'node_tick.cpp', 'h_c05_contacts', [nt], reach=['cleaned-contacts'], snippets=SN, timeout=2400, bounds='two providers of one chunk and one of another with symbolic lifetimes 1..16 s, %d ticks at symbolic times, cleanup interval 1..4 s' % nt))
    return out
