from check import Job
EXPLANATION = 'parse_stun_response on an arbitrary datagram and transaction id: memory safety, and every reported address equals an independent RFC 5389 attribute walk'
ASSUMPTIONS = ['inet_ntop replaced by a recording stub (address bytes and family are compared, not their text form)',
               'datagram lengths are the listed values (<= 48 B quick, <= 64 B thorough); contents and transaction id fully symbolic; longer datagrams are outside the claim']
def jobs(tier):
    lens = [0, 19, 20, 24, 28, 31, 32, 33, 36, 40, 43, 44, 48] + ([52, 56, 60, 64] if tier == 'thorough' else [])
    return [Job('len%d' % n, 'nat.cpp', 'h_c33_parse', [n], reach=['no-address'] + (['address'] if n >= 32 else []), bounds='datagram %d B' % n, timeout=900) for n in lens]
