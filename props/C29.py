from check import Job
EXPLANATION = 'the daemon\'s send_response and the control client\'s parse_response, both lifted from the current sources and connected back to back: for every response with symbolic field values (printable characters and line breaks) and payload bytes, the client ends up with exactly the fields, status and payload the daemon produced'
ASSUMPTIONS = ['send_response (daemon/ControlServer.cpp) and recv_line / recv_exact / parse_response (daemon/ControlClient.cpp) are lifted textually; the socket is a byte string captured from send_all and played back through recv(); TCP segmentation, timeouts and the handlers that build the fields (handle_list, handle_status, ...) are not encoded',
               'field values: 0..3 (quick) / 0..4 (thorough) symbolic characters from the alphabet the handlers emit (printable ASCII and line feed) under the keys ENTRIES / MESSAGE / WARNINGS next to a fixed CODE; payload 0..2 symbolic bytes',
               'in the engine the server-side std::ostringstream is a source-level sink (validated against the real one on every native replay)']
SN = {'SNIP_SEND_RESPONSE': ('src/daemon/ControlServer.cpp', 're:^    static void send_response\\('), 'SNIP_C_K1': ('src/daemon/ControlClient.cpp', 're1:^constexpr std::size_t kMaxLineLength'), 'SNIP_C_TO_UPPER': ('src/daemon/ControlClient.cpp', 'to_upper'), 'SNIP_C_RECV_LINE': ('src/daemon/ControlClient.cpp', 'recv_line'), 'SNIP_C_RECV_EXACT': ('src/daemon/ControlClient.cpp', 'recv_exact'), 'SNIP_C_PARSE_RESPONSE': ('src/daemon/ControlClient.cpp', 'parse_response')}
def jobs(tier):
    out = []
    for kk in (0, 1, 2):
        for vl in ((0, 1, 3) if tier == 'quick' else (0, 1, 2, 3, 4)):
            for pl in ((0, 2) if kk == 0 else (0,)):
                out.append(Job('resp-k%d-v%d-p%d' % (kk, vl, pl), 'ctrl_resp.cpp', 'h_c29_response', [kk, vl, pl], reach=['parsed'], snippets=SN, timeout=1500, bounds='field kind %d, value of %d characters, payload %d B' % (kk, vl, pl)))
    SNC = {k: v for k, v in SN.items() if k.startswith('SNIP_C_')}
    RW = {'^_ZNSt10filesystem7__cxx114path14_M_split_cmptsEv$': 'h_path_split_stub4', '?^_ZNSt10filesystem8absoluteERKNS_7__cxx114pathE$': 'h_fs_absolute4', '?^_ZNKSt10filesystem7__cxx114path11parent_pathEv$': 'h_fs_parent_empty4', '?^_ZNSt10filesystem8absoluteERKNS_7__cxx114pathERSt10error_code$': 'h_fs_absolute_ec4'}
    for n in ((0, 2) if tier == 'quick' else (0, 1, 2, 3)):
        out.append(Job('list-%d' % n, 'ctrl_full.cpp', 'h_c29_list', [n], defines=['VERIF_WITH_CLIENT=1'], reach=['listed'], snippets=SNC, redirect=RW, timeout=2400, bounds='LIST through the whole daemon/ControlServer.cpp (handle_client, handle_list, send_response) and the client parse_response, store of %d chunks with symbolic remaining lifetimes -1 s .. 2.875 s' % n))
    for n in ((230,) if tier == 'quick' else (230, 500)):
        out.append(Job('long-list-%d' % n, 'ctrl_resp.cpp', 'h_c29_long', [n], reach=['parsed-long'], snippets=SN, timeout=2400, bounds='ENTRIES value of %d list lines (%d bytes, beyond 16 KiB), 1 + %d symbolic characters' % (n, n * 86, (n + 49) // 50)))
    return out
