from check import Job
from props.ctrl_snips import SN, R
EXPLANATION = 'handle_store / handle_fetch and the rate-limit kernels (lifted from the current daemon/ControlServer.cpp): a STORE is accepted exactly when size, TTL text and proof of work pass; one client address gets at most 6 STOREs / 12 streamed FETCHes accepted in any 30 s window whatever TOKEN header it sends'
ASSUMPTIONS = ['requests are handed over as ParsedRequest: "refused before the body is read" (parse_request / recv) is NOT encoded, only the size gate inside handle_store; the stream cap is 64 B in the harness',
               'store_pow_valid is a recording stub with an arbitrary verdict (the predicate itself is C19); sanitize_filename_hint / derive_chunk_id are stubs; hashed_token_identity is replaced by an injective text of the token (the real one is hex(SHA-256) through an ostringstream)',
               'TTL header: 1..3 (quick) / 1..4 (thorough) fully symbolic characters; window 16-bit symbolic; rate jobs: 7 STOREs / 13 FETCHes at symbolic whole-second times (advance 0..15 s), TOKEN header absent / different on every request / identical on every request']
def jobs(tier):
    out = []
    for pl in (3, 64, 65):
        for td in ((0, 1, 3) if tier == 'quick' else (0, 1, 2, 3, 4)):
            out.append(Job('admit-len%d-ttl%d' % (pl, td), 'ctrl.cpp', 'h_c28_admission', [pl, td], reach=['refused'] + (['accepted'] if pl <= 64 else []), snippets=SN, redirect=R, stream_sink=True, timeout=1500, bounds='payload %d B, TTL text of %d characters' % (pl, td)))
    for tm in (0, 1, 2):
        out.append(Job('rate-store-tokens%d' % tm, 'ctrl.cpp', 'h_c28_rate', [7, 0, tm], reach=['rated', 'accepted', 'limited'], snippets=SN, redirect=R, stream_sink=True, timeout=3000, max_paths=2000000, bounds='7 STOREs from one address, TOKEN header mode %d (0 none, 1 a different value each time, 2 the same value)' % tm))
    out.append(Job('rate-fetch-tokens1-short-gaps', 'ctrl.cpp', 'h_c28_rate', [13, 1, 5], reach=['rated', 'accepted', 'limited'], snippets=SN, redirect=R, stream_sink=True, timeout=3000, max_paths=2000000, bounds='13 streamed FETCHes from one address with a different TOKEN header each, gaps of 0..3 s'))
    if tier == 'thorough':
        for tm in (0, 1):
            out.append(Job('rate-fetch-tokens%d' % tm, 'ctrl.cpp', 'h_c28_rate', [13, 1, tm], reach=['rated', 'accepted', 'limited'], snippets=SN, redirect=R, stream_sink=True, timeout=3300, max_paths=2000000, bounds='13 streamed FETCHes, TOKEN header mode %d' % tm))
    return out
