from check import Job
from props.node_snips import SN
EXPLANATION = 'announce throttle and lock-out kernels of Node on a partial Node: for every timed sequence of announces (two peers interleaved) an announce gets through exactly when it respects the minimum interval and the burst limit of the window; three rejections within 120 s lock a peer out for exactly 180 s'
ASSUMPTIONS = ['register_incoming_announce, announce_sender_locked, record_announce_failure, clear_announce_failures and the three lock-out constants are lifted textually from the current core/Node.cpp and compiled against the real class declaration; only the members they touch exist',
               'the admissibility gate of handle_announce (sender not locked out, announcer == sender, decodable unexpired manifest, threshold/assigned shards, PoW and version) is NOT encoded: only the throttle/lock-out clause of the property is decided',
               'independence jobs: two nodes receive the same two announces; one of them then sees four failure / lock-out query / clear operations for the same peer at symbolic times; a final announce must get the same verdict on both', 'times are whole seconds, advances 0..255 s between events; min interval 1..63 s, burst limit 1..3, window >= min interval and <= 255 s; 4 (quick) / 6 (thorough) events']
def jobs(tier):
    k = 4 if tier == 'quick' else 6
    return [Job('throttle-k%d' % k, 'node_kern.cpp', 'h_c21_throttle', [k], reach=['admitted', 'throttled'], snippets=SN, timeout=3000, bounds='%d announces, two peers' % k),
            ] + [Job('independence-op%d' % w, 'node_kern.cpp', 'h_c21_independence', [w], reach=['compared'], snippets=SN, timeout=3000, bounds='2 announces, 4 lock-out operations (kind %d), 1 announce; all gaps 0..255 s' % w) for w in (0, 1, 2)] + [
            Job('lockout-k%d' % (k + 1), 'node_kern.cpp', 'h_c21_lockout', [k + 1], reach=['locked', 'unlocked', 'lockout-started'], snippets=SN, timeout=3000, bounds='%d failure/query events' % (k + 1))]
