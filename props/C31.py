from check import Job
EXPLANATION = 'the three filename sanitisers (CLI fetch lambda, Node::store_chunk lambda, security::sanitize_filename_hint) on inputs with every byte symbolic: the result has no separator, control or reserved character, is never . or .., is at most 255 bytes, and joined to a directory is a direct child'
ASSUMPTIONS = ['the two lambdas are lifted textually from the current src/main.cpp and src/core/Node.cpp at check time and compiled inside the harness (the enclosing 5000-line main() / Node::store_chunk are not encoded); sanitize_filename_hint is lifted from security/StoreProof.cpp',
               'std::filesystem::path::filename() is the POSIX generic-format model of harness/fname.cpp (text after the last "/"); path component splitting is stubbed; the native replay uses the real libstdc++',
               'inputs: optional prefix ("", "d/", "../", "/") followed by 0..3 (quick) / 0..4 (thorough) fully symbolic bytes (each byte forks about 11 ways through the character tests), plus 300-byte names whose bytes 254, 255 (both sides of the cut) and one extension byte are symbolic; iscntrl is the "C" locale predicate',
               'for sanitize_filename_hint only what the statement needs from it is asserted (no separator, not . or .., <= 255 bytes)']
SN = {'STOREPROOF_SANITIZE_SNIPPET': ('src/security/StoreProof.cpp', 'sanitize_filename_hint'),
      'CLI_SANITIZE_SNIPPET': ('src/main.cpp', r're:auto sanitize_filename = \[\]\(const std::string& candidate\) \{'),
      'NODE_SANITIZE_SNIPPET': ('src/core/Node.cpp', r're:if \(original_name\.has_value\(\)\) \{')}
R = {r'^_ZNKSt10filesystem7__cxx114path8filenameEv$': 'h_path_filename', r'^_ZNSt10filesystem7__cxx114path14_M_split_cmptsEv$': 'h_path_split_stub', r'?^_ZNKSt10filesystem7__cxx114path9extensionEv$': 'h_path_extension'}
def jobs(tier):
    out = []
    maxlen = 3 if tier == 'quick' else 4
    for entry, tag, reach in (('h_c31_cli', 'cli', ['named', 'fallback']), ('h_c31_node', 'node', ['recorded', 'omitted']), ('h_c31_hint', 'hint', ['hint', 'nohint'])):
        for n in range(0, maxlen + 1):
            for pk in ((0, 1) if tier == 'quick' else (0, 1, 2, 3)):
                r = reach if (n >= 1 and pk == 0) else []
                out.append(Job('%s-len%d-p%d' % (tag, n, pk), 'fname.cpp', entry, [n, pk], reach=r, snippets=SN, redirect=R, timeout=1500, max_paths=2000000, bounds='prefix kind %d + %d symbolic bytes' % (pk, n)))
    for w in (0, 1, 2):
        out.append(Job('long-%d' % w, 'fname.cpp', 'h_c31_long', [w], reach=['long'], snippets=SN, redirect=R, timeout=1500, bounds='300-byte name, symbolic bytes 254, 255 and one extension byte'))
    return out
