from check import Job
EXPLANATION = 'SwarmCoordinator::compute_plan over the real KademliaTable: every shard goes to exactly one provider, providers are distinct live peers other than the node, each gets at least one shard, counts differ by at most one, and the provider count follows the stated formula for every configuration and threshold'
ASSUMPTIONS = ['the leases of the first two contacts are either long (100+ s) or in their last half second (symbolic choice, enumerated), the others long: leases are concrete numbers because the ranking score is floating point', 'table contents per job: 0..4 live remote contacts, optionally an expired contact and the local id; 1..6 shards; swarm_min_providers / swarm_target_replicas (all 16-bit values), candidate sample 0..8 and the manifest threshold (all 8-bit values) symbolic',
               'peer load snapshot empty and score jitter fixed (uniform_real_distribution redirected: libstdc++ implements it with long double): the property does not depend on the order of equally eligible candidates, only on their number',
               'diagnostics text (std::ostringstream) is a sink in the engine; the provider-count formula is asserted when the local id is not in the table (with it, one sampled slot may be lost before the local id is filtered out)']
R = {r'uniform_real_distributionIdEclISt23mersenne_twister_engine.*EEEdRT_$': 'h_jitter'}
def jobs(tier):
    out = []
    shapes = [(0, 2, 0), (1, 1, 0), (2, 3, 0), (3, 5, 1), (3, 2, 2), (4, 6, 3)] if tier == 'quick' else [(c, s, e) for c in (0, 1, 2, 3, 4) for s in (1, 2, 3, 5, 6) for e in (0, 1, 2, 3)]
    for c, s, e in shapes:
        out.append(Job('plan-c%d-s%d-e%d' % (c, s, e), 'swarm.cpp', 'h_c22_plan', [c, s, e], reach=['planned'] if c else ['no-plan'], redirect=R, stream_sink=True, timeout=1500, bounds='%d live contacts, %d shards, extras %d' % (c, s, e)))
    return out
