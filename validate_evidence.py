#!/usr/bin/env python3
import json, sys, glob, jsonschema
sch = json.load(open('/root/.vp/EVIDENCE.schema.json')); bad = 0
for f in sorted(glob.glob('/verif/evidence/*.json')):
    try: jsonschema.validate(json.load(open(f)), sch); e = json.load(open(f)); print(f, 'valid', 'nontrivial', e['coverage']['distinct_nontrivial'], 'evals', e['coverage']['evaluations'], 'validated', e['coverage'].get('traces_validated_against_impl'))
    except Exception as ex: bad += 1; print(f, 'INVALID', str(ex)[:300])
sys.exit(1 if bad else 0)
