// Harness unit for network/AdvertiseDiscovery.cpp (C34): the address classifiers that gate every auto-advertised endpoint.
#include "verif.h"
#include "src/network/AdvertiseDiscovery.cpp"
#include "src/network/NatTraversal.cpp"   // only so that the native replay binary links; nothing from it is called
using namespace ephemeralnet::network;
// reference: the categories of the property statement as IANA special-purpose IPv4 blocks
static bool spec_nonroutable_v4(const std::uint8_t* ip) {
    return ip[0] == 0 || ip[0] == 127 || ip[0] == 10 || (ip[0] == 172 && (ip[1] & 0xF0) == 16) || (ip[0] == 192 && ip[1] == 168) ||
           (ip[0] == 169 && ip[1] == 254) || (ip[0] == 100 && (ip[1] & 0xC0) == 64) ||
           (ip[0] == 192 && ip[1] == 0 && ip[2] == 2) || (ip[0] == 198 && ip[1] == 51 && ip[2] == 100) || (ip[0] == 203 && ip[1] == 0 && ip[2] == 113) ||
           (ip[0] == 198 && (ip[1] & 0xFE) == 18) || ip[0] >= 224;
}
extern "C" void h_c34_v4(unsigned long) {
    std::array<std::uint8_t, 4> ip{}; nondet_bytes(ip.data(), 4, "ip");
    const bool spec = spec_nonroutable_v4(ip.data());
    if (spec) { verif_assert(is_private_or_reserved_ipv4(ip), "C34: every unspecified/loopback/private/link-local/CGNAT/documentation/benchmark/multicast/reserved IPv4 address is withheld"); verif_reach("nonroutable"); }
    else verif_reach("routable");
}
static void put_octet(std::string& s, std::uint8_t hi, std::uint8_t lo, unsigned digits) { if (digits == 2) s.push_back(static_cast<char>('0' + hi)); s.push_back(static_cast<char>('0' + lo)); }
// dotted quad "AB.C.D.E" / "ABC.CD.D.E"-style texts with symbolic decimal digits, optionally as IPv4-mapped IPv6 "::ffff:a.b.c.d"
extern "C" void h_c34_text(unsigned long mapped, unsigned long first_digits, unsigned long second_digits) {
    std::uint8_t dg[12]; nondet_bytes(dg, 12, "digit");
    for (auto d : dg) verif_assume(d <= 9);
    std::string host = mapped ? "::ffff:" : "";
    unsigned oct[4];
    // first octet: 2 or 3 digits, second: 1..3 digits, third: up to 3 digits, fourth: 1 digit
    if (first_digits == 3) { verif_assume(dg[0] >= 1 && dg[0] * 100 + dg[1] * 10 + dg[2] <= 255); host.push_back('0' + dg[0]); oct[0] = dg[0] * 100 + dg[1] * 10 + dg[2]; }
    else { verif_assume(dg[1] >= 1); oct[0] = dg[1] * 10 + dg[2]; }
    host.push_back('0' + dg[1]); host.push_back('0' + dg[2]); host.push_back('.');
    if (second_digits == 3) { verif_assume(dg[3] >= 1 && dg[3] * 100 + dg[4] * 10 + dg[5] <= 255); host.push_back('0' + dg[3]); host.push_back('0' + dg[4]); oct[1] = dg[3] * 100 + dg[4] * 10 + dg[5]; }
    else if (second_digits == 2) { verif_assume(dg[4] >= 1); host.push_back('0' + dg[4]); oct[1] = dg[4] * 10 + dg[5]; }
    else oct[1] = dg[5];
    host.push_back('0' + dg[5]); host.push_back('.');
    verif_assume(dg[6] >= 1 && dg[6] * 100 + dg[7] * 10 + dg[8] <= 255);
    host.push_back('0' + dg[6]); host.push_back('0' + dg[7]); host.push_back('0' + dg[8]); oct[2] = dg[6] * 100 + dg[7] * 10 + dg[8];
    host.push_back('.'); host.push_back('0' + dg[9]); oct[3] = dg[9];
    const std::uint8_t ip[4] = {static_cast<std::uint8_t>(oct[0]), static_cast<std::uint8_t>(oct[1]), static_cast<std::uint8_t>(oct[2]), static_cast<std::uint8_t>(oct[3])};
    if (spec_nonroutable_v4(ip)) {
        verif_assert(is_private_or_reserved_host(host), mapped ? "C34: an IPv4-mapped IPv6 form of a non-routable address is withheld" : "C34: a non-routable dotted-quad host is withheld");
        verif_reach("nonroutable");
    }
}
