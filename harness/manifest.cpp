// Harness unit for protocol/Manifest.cpp (C17 round trip / refusal, C18 total decoding).
// The base64 pair is checked on its own (h_c17_base64, h_c18_base64); the binary layer jobs replace both base64 functions by the
// identity on bytes (engine redirect), so the decoder sees an arbitrary byte vector. Natively nothing is redirected: the harness then
// wraps payloads with its own RFC 4648 encoder, and the real pair runs.
#include "verif.h"
#include "rbtree_models.h"
#include "src/protocol/Manifest.cpp"
using namespace ephemeralnet;
using namespace ephemeralnet::protocol;

extern "C" void h_b64_encode_identity(std::string* out, const std::vector<std::uint8_t>* in) {
    new (out) std::string(reinterpret_cast<const char*>(in->data()), in->size());
}
extern "C" void h_b64_decode_identity(std::vector<std::uint8_t>* out, const std::string* in) {
    new (out) std::vector<std::uint8_t>(in->begin(), in->end());
}
static std::string spec_b64(const std::uint8_t* p, std::size_t n) {      // RFC 4648 section 4
    static const char* A = "ABCDEFGHIJKLMNOPQRSTUVWXYZabcdefghijklmnopqrstuvwxyz0123456789+/";
    std::string o;
    for (std::size_t i = 0; i < n; i += 3) {
        const unsigned b0 = p[i], b1 = i + 1 < n ? p[i + 1] : 0, b2 = i + 2 < n ? p[i + 2] : 0;
        o.push_back(A[b0 >> 2]); o.push_back(A[((b0 & 3) << 4) | (b1 >> 4)]);
        o.push_back(i + 1 < n ? A[((b1 & 15) << 2) | (b2 >> 6)] : '='); o.push_back(i + 2 < n ? A[b2 & 63] : '=');
    }
    return o;
}
// what the decoder receives for a given binary payload
static std::string uri_for_payload(const std::vector<std::uint8_t>& payload) {
#ifdef VERIF_NATIVE
    return "eph://" + spec_b64(payload.data(), payload.size());
#else
    return "eph://" + std::string(reinterpret_cast<const char*>(payload.data()), payload.size());
#endif
}
// ---------------------------------------------------------------- C17 (a): base64 round trip, every byte symbolic
extern "C" void h_c17_base64(unsigned long len) {
    std::vector<std::uint8_t> in(len);
    if (len) nondet_bytes(in.data(), len, "byte");
    const std::string enc = base64_encode(in);
    verif_assert(enc == spec_b64(in.data(), len), "C17: base64 encoding is RFC 4648");
    const auto back = base64_decode(enc);
    verif_assert(back == in, "C17: base64 decoding inverts encoding");
    verif_reach("b64");
}
// ---------------------------------------------------------------- C17 (b): manifest round trip
static std::string sym_string(unsigned long n, const char* tag) { std::string s; for (unsigned long i = 0; i < n; ++i) s.push_back(static_cast<char>(nondet_u8(tag))); return s; }
static void check_equal(const Manifest& m, const Manifest& d) {
    verif_assert(d.chunk_id == m.chunk_id && d.chunk_hash == m.chunk_hash && d.nonce.bytes == m.nonce.bytes, "C17: ids, hash and nonce round-trip");
    verif_assert(d.threshold == m.threshold && d.total_shares == m.total_shares, "C17: threshold and share count round-trip");
    verif_assert(std::chrono::duration_cast<std::chrono::seconds>(d.expires_at.time_since_epoch()) == std::chrono::duration_cast<std::chrono::seconds>(m.expires_at.time_since_epoch()), "C17: expiry round-trips to the whole second");
    verif_assert(d.shards.size() == m.shards.size(), "C17: every shard round-trips");
    for (std::size_t i = 0; i < m.shards.size() && i < d.shards.size(); ++i) verif_assert(d.shards[i].index == m.shards[i].index && d.shards[i].value == m.shards[i].value, "C17: shard contents round-trip");
    verif_assert(d.metadata == m.metadata, "C17: metadata round-trips");
    verif_assert(d.discovery_hints.size() == m.discovery_hints.size(), "C17: every discovery hint round-trips");
    for (std::size_t i = 0; i < m.discovery_hints.size() && i < d.discovery_hints.size(); ++i) {
        const auto& a = m.discovery_hints[i]; const auto& b = d.discovery_hints[i];
        verif_assert(b.transport == a.transport && b.endpoint == a.endpoint && b.priority == a.priority, "C17: discovery hint fields round-trip");
        verif_assert(b.scheme == (a.scheme.empty() ? a.transport : a.scheme), "C17: an empty discovery scheme is reported as its transport");
    }
    verif_assert(d.security.advisory == m.security.advisory && d.security.token_challenge_bits == m.security.token_challenge_bits && d.security.has_attestation_digest == m.security.has_attestation_digest, "C17: security section round-trips");
    if (m.security.has_attestation_digest) verif_assert(d.security.attestation_digest == m.security.attestation_digest, "C17: attestation digest round-trips");
    verif_assert(d.fallback_hints.size() == m.fallback_hints.size(), "C17: every fallback hint round-trips");
    for (std::size_t i = 0; i < m.fallback_hints.size() && i < d.fallback_hints.size(); ++i) verif_assert(d.fallback_hints[i].uri == m.fallback_hints[i].uri && d.fallback_hints[i].priority == m.fallback_hints[i].priority, "C17: fallback hint fields round-trip");
}
static void fill_fixed_symbolic(Manifest& m) {
    nondet_bytes(m.chunk_id.data(), 32, "chunk_id"); nondet_bytes(m.chunk_hash.data(), 32, "hash"); nondet_bytes(m.nonce.bytes.data(), 12, "nonce");
    m.threshold = nondet_u8("threshold"); m.total_shares = nondet_u8("total");
    const std::uint64_t exp_s = nondet_u64("expiry_s"); verif_assume(exp_s < (1ull << 33));
    const std::uint32_t sub_ns = nondet_u32("expiry_subsecond_ns"); verif_assume(sub_ns < 1000000000u);
    m.expires_at = std::chrono::system_clock::time_point(std::chrono::nanoseconds(static_cast<long long>(exp_s) * 1000000000LL + sub_ns));
}
// shape = decimal digits: shards, metadata entries, discovery hints, fallback hints, advisory length, string length
extern "C" void h_c17_roundtrip(unsigned long shards, unsigned long metas, unsigned long hints, unsigned long sl) {
    Manifest m; fill_fixed_symbolic(m);
    for (unsigned long i = 0; i < shards; ++i) { KeyShard s; s.index = nondet_u8("shard_index"); nondet_bytes(s.value.data(), 32, "shard"); m.shards.push_back(s); }
    for (unsigned long i = 0; i < metas; ++i) {
        std::string k = sym_string(1, "key") + std::string(i, 'k');                 // distinct lengths -> distinct keys, contents symbolic
        m.metadata.emplace(k, sym_string(sl, "value"));
    }
    for (unsigned long i = 0; i < hints; ++i) {
        DiscoveryHint h; const bool empty_scheme = nondet_bool("empty_scheme");
        if (!verif_concretize(empty_scheme, 2)) h.scheme = sym_string(1, "scheme");
        h.transport = sym_string(1, "transport"); h.endpoint = sym_string(sl, "endpoint"); h.priority = nondet_u8("priority");
        m.discovery_hints.push_back(h);
        FallbackHint f; f.uri = sym_string(sl, "uri"); f.priority = nondet_u8("fpriority"); m.fallback_hints.push_back(f);
    }
    m.security.advisory = sym_string(sl, "advisory"); m.security.token_challenge_bits = nondet_u8("token_bits");
    const bool dig = nondet_bool("has_digest"); m.security.has_attestation_digest = verif_concretize(dig, 2);
    nondet_bytes(m.security.attestation_digest.data(), 32, "digest");
    const std::string uri = encode_manifest(m);
    const Manifest d = decode_manifest(uri);
    check_equal(m, d);
    verif_reach("roundtrip");
}
// ---------------------------------------------------------------- C17 (c): unrepresentable manifests are refused
// which: 0 shards, 1 metadata entries, 2 discovery hints, 3 fallback hints (count n); 4 key length, 5 value, 6 endpoint, 7 uri, 8 advisory, 9 scheme, 10 transport (length n)
extern "C" void h_c17_limits(unsigned long which, unsigned long n) {
    Manifest m; fill_fixed_symbolic(m);
    bool representable = true;
    if (which == 0) { for (unsigned long i = 0; i < n; ++i) { KeyShard s; s.index = static_cast<std::uint8_t>(i); s.value.fill(static_cast<std::uint8_t>(i)); m.shards.push_back(s); } representable = n <= 255; }
    else if (which == 1) { for (unsigned long i = 0; i < n; ++i) { std::string k = "k"; k.push_back(static_cast<char>('0' + i / 100)); k.push_back(static_cast<char>('0' + (i / 10) % 10)); k.push_back(static_cast<char>('0' + i % 10)); m.metadata.emplace(k, "v"); } representable = n <= 255; }
    else if (which == 2) { for (unsigned long i = 0; i < n; ++i) { DiscoveryHint h; h.transport = "t"; h.endpoint = "e"; m.discovery_hints.push_back(h); } representable = n <= 255; }
    else if (which == 3) { for (unsigned long i = 0; i < n; ++i) { FallbackHint f; f.uri = "u"; m.fallback_hints.push_back(f); } representable = n <= 255; }
    else if (which == 4) { m.metadata.emplace(std::string(n, 'k'), "v"); representable = n <= 255; }
    else if (which == 5) { m.metadata.emplace("k", std::string(n, 'v')); representable = n <= 65535; }
    else if (which == 6) { DiscoveryHint h; h.transport = "t"; h.endpoint = std::string(n, 'e'); m.discovery_hints.push_back(h); representable = n <= 65535; }
    else if (which == 7) { FallbackHint f; f.uri = std::string(n, 'u'); m.fallback_hints.push_back(f); representable = n <= 65535; }
    else if (which == 8) { m.security.advisory = std::string(n, 'a'); representable = n <= 65535; }
    else if (which == 9) { DiscoveryHint h; h.scheme = std::string(n, 's'); h.transport = "t"; m.discovery_hints.push_back(h); representable = n <= 255; }
    else { DiscoveryHint h; h.transport = std::string(n, 't'); m.discovery_hints.push_back(h); representable = n <= 255; }
    bool refused = false; std::string uri;
    try { uri = encode_manifest(m); } catch (const std::exception&) { refused = true; }
    verif_assert(refused == !representable, "C17: a manifest is refused exactly when a field does not fit the format (no silent truncation)");
    if (!refused) { const Manifest d = decode_manifest(uri); check_equal(m, d); verif_reach("accepted"); } else verif_reach("refused");
}
// ---------------------------------------------------------------- C18: decoding is total
extern "C" void h_c18_base64(unsigned long len) {
    std::string in = sym_string(len, "char");
    bool threw_other = false;
    try { const auto out = base64_decode(in); verif_assert(out.size() <= (len / 4) * 3, "C18: decoded size bounded"); verif_reach("decoded"); }
    catch (const std::invalid_argument&) { verif_reach("rejected"); }
    catch (...) { threw_other = true; }
    verif_assert(!threw_other, "C18: base64 decoding throws only invalid_argument");
}
extern "C" void h_c18_prefix(unsigned long len) {
    std::string in = sym_string(len, "char");
    bool threw_other = false;
    try { (void)decode_manifest(in); } catch (const std::invalid_argument&) { verif_reach("rejected"); } catch (...) { threw_other = true; }
    verif_assert(!threw_other, "C18: manifest decoding throws only invalid_argument");
}
// arbitrary binary payload of the given length (version byte optionally fixed to keep the path count down)
extern "C" void h_c18_payload(unsigned long len, unsigned long version) {
    std::vector<std::uint8_t> payload(len);
    if (len) nondet_bytes(payload.data(), len, "payload");
    if (version && len) verif_assume(payload[0] == version);
    const std::string uri = uri_for_payload(payload);
    bool threw_other = false;
    try { const Manifest m = decode_manifest(uri); (void)m; verif_reach("accepted"); }
    catch (const std::invalid_argument&) { verif_reach("rejected"); }
    catch (...) { threw_other = true; }
    verif_assert(!threw_other, "C18: manifest decoding either returns a manifest or throws invalid_argument");
}
