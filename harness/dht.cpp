// Harness unit for dht/KademliaTable.cpp (C06 provider table, C07 routing buckets / closest-peer queries).
#include "stdmodels.h"
#define private public
#include "ephemeralnet/dht/KademliaTable.hpp"
#undef private
#include "src/dht/KademliaTable.cpp"
using namespace ephemeralnet;
namespace {
constexpr long long kNs = 1000000000LL;
PeerId self_id() { PeerId s{}; for (std::size_t i = 0; i < 32; ++i) s[i] = static_cast<std::uint8_t>(0x11 * (i % 7) + 3); return s; }
PeerId peer_n(unsigned n) { PeerId p = self_id(); p[0] ^= static_cast<std::uint8_t>(0x80 >> (n % 8)); p[31] ^= static_cast<std::uint8_t>(n + 1); return p; }
ChunkId chunk_n(unsigned n) { ChunkId c{}; for (std::size_t i = 0; i < 32; ++i) c[i] = static_cast<std::uint8_t>(n ? 0xC0 + i : 0x21 + 2 * i); return c; }
using verif_env::advance_clock;
struct Prov { bool present = false; long long deadline = 0; std::uint8_t addr = 0; };
}

// ---------------------------------------------------------------- C06: histories over chunks {X,Y} x peers {P1,P2,P3}
// opcode sequence fixed per job (base-4 digits of `seq`); peers, chunks, TTLs, addresses and the clock stay symbolic
extern "C" void h_c06_history(unsigned long k, unsigned long npeers, unsigned long nchunks, unsigned long seq) {
    KademliaTable table(self_id());
    Prov o[2][3];
    verif_env::start_clock();
    for (unsigned long step = 0; step < k; ++step) {
        advance_clock();
        const long long now = verif_env::g_steady_ns;
        const unsigned op = static_cast<unsigned>(seq % 4); seq /= 4;
        std::uint8_t cs = nondet_u8("chunk"); verif_assume(cs < nchunks);
        const unsigned c = static_cast<unsigned>(verif_concretize(cs, 4));
        std::uint8_t ps = nondet_u8("peer"); verif_assume(ps < npeers);
        const unsigned p = static_cast<unsigned>(verif_concretize(ps, 4));
        if (op == 0) {
            // TTL in [-4, 251] s, event times on the 1/8 s grid (see stdmodels.h)
            const std::int64_t ttl = static_cast<std::int64_t>(nondet_u8("ttl_s")) - 4;
            PeerContact contact{}; contact.id = peer_n(p);
            const std::uint8_t a = nondet_u8("addr");
            contact.address = std::string(1, static_cast<char>(a));
            table.add_contact(chunk_n(c), contact, std::chrono::seconds(ttl));
            o[c][p].present = true; o[c][p].deadline = now + ttl * kNs; o[c][p].addr = a;
            verif_reach("announce");
        } else if (op == 1) {
            const auto got = table.find_providers(chunk_n(c));
            std::size_t live = 0;
            for (unsigned q = 0; q < npeers; ++q) {
                const bool is_live = o[c][q].present && now < o[c][q].deadline;
                std::size_t cnt = 0;
                for (const auto& g : got) if (g.id == peer_n(q)) {
                    ++cnt;
                    verif_assert(g.expires_at.time_since_epoch().count() == o[c][q].deadline, "C06: provider carries the expiry of its most recent announcement");
                    verif_assert(g.address.size() == 1 && static_cast<std::uint8_t>(g.address[0]) == o[c][q].addr, "C06: provider carries the address of its most recent announcement");
                }
                verif_assert(cnt == (is_live ? 1u : 0u), "C06: lookup returns exactly the live, non-withdrawn providers");
                if (is_live) { ++live; verif_reach("provider-live"); }
                else if (o[c][q].present) verif_reach("provider-expired");
            }
            verif_assert(got.size() == live, "C06: lookup returns nothing else");
        } else if (op == 2) {
            table.sweep_expired();
            verif_reach("sweep");
        } else {
            table.withdraw_contact(chunk_n(c), peer_n(p));
            o[c][p].present = false;
            verif_reach("withdraw");
        }
    }
    // final lookups for every chunk (a sweep or withdrawal must not have removed a live provider)
    advance_clock();
    const long long now = verif_env::g_steady_ns;
    for (unsigned c = 0; c < nchunks; ++c) {
        const auto got = table.find_providers(chunk_n(c));
        std::size_t live = 0;
        for (unsigned q = 0; q < npeers; ++q) {
            const bool is_live = o[c][q].present && now < o[c][q].deadline;
            std::size_t cnt = 0;
            for (const auto& g : got) if (g.id == peer_n(q)) ++cnt;
            verif_assert(cnt == (is_live ? 1u : 0u), "C06: after the history, lookup returns exactly the live, non-withdrawn providers");
            live += is_live;
        }
        verif_assert(got.size() == live, "C06: after the history, lookup returns nothing else");
    }
}

// cap: 20 providers with distinct concrete lifetimes, a 21st with a symbolic TTL: the 20 expiring last are kept
extern "C" void h_c06_cap(unsigned long) {
    KademliaTable table(self_id());
    verif_env::g_steady_ns = 1000;
    for (unsigned q = 0; q < 20; ++q) {
        PeerContact c{}; c.id = peer_n(q); c.address = "x";
        table.add_contact(chunk_n(0), c, std::chrono::seconds(100 + 10 * ((q * 7) % 20)));
    }
    const std::uint32_t ttl = nondet_u32("ttl_s");
    verif_assume(ttl >= 1 && ttl <= 400);
    PeerContact extra{}; extra.id = peer_n(20); extra.address = "y";
    table.add_contact(chunk_n(0), extra, std::chrono::seconds(ttl));
    const auto got = table.find_providers(chunk_n(0));
    verif_assert(got.size() == 20, "C06: at most 20 providers are kept");
    // the dropped one must not expire later than any kept one
    long long min_kept = -1; bool extra_kept = false;
    for (const auto& g : got) { const long long e = g.expires_at.time_since_epoch().count(); if (min_kept < 0 || e < min_kept) min_kept = e; if (g.id == peer_n(20)) extra_kept = true; }
    const long long extra_deadline = 1000 + static_cast<long long>(ttl) * kNs;
    const long long shortest_old = 1000 + 100 * kNs;
    if (extra_kept) { verif_assert(extra_deadline >= shortest_old, "C06: the providers kept are those expiring last"); verif_reach("new-kept"); }
    else { verif_assert(extra_deadline <= min_kept, "C06: the providers kept are those expiring last"); verif_reach("new-dropped"); }
}

// ---------------------------------------------------------------- C07
static int spec_bucket(const PeerId& self, const PeerId& peer) {   // index of the highest differing bit, -1 when equal
    for (int bit = 255; bit >= 0; --bit) {
        const int byte = 31 - bit / 8, sh = bit % 8;
        if (((self[byte] ^ peer[byte]) >> sh) & 1) return bit;
    }
    return -1;
}
// kernel: bucket index for a fully symbolic peer id against a fully symbolic local id
extern "C" void h_c07_bucket_index(unsigned long) {
    PeerId self{}, peer{};
    nondet_bytes(self.data(), 32, "self"); nondet_bytes(peer.data(), 32, "peer");
    KademliaTable table(self);
    const auto idx = table.bucket_index_for(peer);
    const int spec = spec_bucket(self, peer);
    verif_assert(idx.has_value() == (spec >= 0), "C07: only the local id has no bucket");
    if (idx.has_value()) { verif_assert(static_cast<int>(*idx) == spec, "C07: a contact's bucket is its highest bit differing from the local id"); verif_reach("indexed"); }
    else verif_reach("self");
}
static bool dist_less(const PeerId& a, const PeerId& b, const PeerId& t) {   // strict XOR-distance order
    for (std::size_t i = 0; i < 32; ++i) { const std::uint8_t x = a[i] ^ t[i], y = b[i] ^ t[i]; if (x != y) return x < y; }
    return false;
}
// query: n contacts (symbolic low bytes, concrete bucket class), symbolic expiries, symbolic target and limit
extern "C" void h_c07_closest(unsigned long n, unsigned long same_bucket) {
    KademliaTable table(self_id());
    verif_env::g_steady_ns = 5000 * kNs;
    PeerId ids[4]; long long exp[4];
    for (unsigned i = 0; i < n; ++i) {
        ids[i] = self_id();
        ids[i][0] ^= static_cast<std::uint8_t>(same_bucket == 1 ? 0x80 : (same_bucket == 2 || same_bucket == 3) ? (0x40 >> i) : (0x80 >> i));   // 2: buckets below the top one (a target in the top bucket has them all in one distance band)
        if (same_bucket == 3) { ids[i][30] = static_cast<std::uint8_t>(0x11 * (i + 1)); ids[i][31] = static_cast<std::uint8_t>(7 * i + 3); }   /* 3: everything about the contacts is concrete, only target and limit are symbolic (cheap) */
        else { ids[i][30] = nondet_u8("id30"); ids[i][31] = nondet_u8("id31"); }
        for (unsigned j = 0; j < i; ++j) verif_assume(ids[i] != ids[j]);
        const std::uint32_t e = same_bucket == 3 ? 5010u : nondet_u32("expires_s"); verif_assume(e >= 4990 && e <= 5010);
        exp[i] = static_cast<long long>(e) * kNs;
        PeerContact c{}; c.id = ids[i]; c.address = "h"; c.expires_at = std::chrono::steady_clock::time_point(std::chrono::nanoseconds(exp[i]));
        table.register_peer(c);
    }
    const std::uint32_t later = same_bucket == 3 ? 5000u : nondet_u32("query_s"); verif_assume(later >= 5000 && later <= 5012);
    verif_env::g_steady_ns = static_cast<long long>(later) * kNs;
    const long long now = verif_env::g_steady_ns;
    PeerId target = self_id(); target[0] = nondet_u8("t0"); target[30] = nondet_u8("t30"); target[31] = nondet_u8("t31");
    const std::uint8_t limit = nondet_u8("limit"); verif_assume(limit <= 5);
    const auto got = table.closest_peers(target, limit);
    // NOTE register_peer purges entries already expired at registration time from the bucket it touches (upsert_bucket);
    // a contact registered with an expiry in the past is itself stored, so "held" = every registered contact not purged by a later registration.
    std::size_t live = 0; bool held[4];
    for (unsigned i = 0; i < n; ++i) held[i] = true;
    for (unsigned i = 0; i < n; ++i) if (now < exp[i]) ++live;
    const std::size_t want = limit < live ? limit : live;
    verif_assert(got.size() == want, "C07: a query returns min(k, live contacts) peers");
    for (std::size_t g = 0; g < got.size(); ++g) {
        bool found = false;
        for (unsigned i = 0; i < n; ++i) if (got[g].id == ids[i]) { found = true; verif_assert(now < exp[i], "C07: expired contacts are never returned"); verif_assert(got[g].expires_at.time_since_epoch().count() == exp[i], "C07: returned contact carries its expiry"); }
        verif_assert(found, "C07: only held contacts are returned");
        if (g > 0) verif_assert(dist_less(got[g - 1].id, got[g].id, target), "C07: results are in strictly increasing XOR distance");
    }
    if (!got.empty()) {
        for (unsigned i = 0; i < n; ++i) {
            if (!(now < exp[i])) continue;
            bool in = false; for (const auto& g : got) in = in || g.id == ids[i];
            if (!in) verif_assert(!dist_less(ids[i], got.back().id, target), "C07: no live contact closer than a returned one is omitted");
        }
        verif_reach("answered");
    } else verif_reach("empty");
}
// bucket shape after a sequence of registrations / refreshes: <= 16 per bucket, right bucket, one entry per id with newest data, self never held
static void check_shape(const KademliaTable& t, const char* msg_size) {
    for (std::size_t b = 0; b < t.buckets_.size(); ++b) {
        const auto& bucket = t.buckets_[b];
        verif_assert(bucket.size() <= 16, msg_size);
        for (std::size_t i = 0; i < bucket.size(); ++i) {
            verif_assert(spec_bucket(t.self_id_, bucket[i].id) == static_cast<int>(b), "C07: every contact sits in the bucket of its highest differing bit");
            for (std::size_t j = i + 1; j < bucket.size(); ++j) verif_assert(bucket[i].id != bucket[j].id, "C07: a contact has a single entry");
        }
    }
}
extern "C" void h_c07_shape(unsigned long k) {
    KademliaTable table(self_id());
    verif_env::g_steady_ns = 100 * kNs;
    PeerId last{}; std::uint8_t last_addr = 0; long long last_exp = 0; bool have = false;
    for (unsigned long s = 0; s < k; ++s) {
        PeerId id = self_id();
        const std::uint8_t hi = nondet_u8("flip_hi"), lo = nondet_u8("flip_lo");
        verif_assume(hi == 0 || hi == 0x80 || hi == 0x40); verif_assume(lo < 4);
        id[0] ^= hi; id[31] ^= lo;                      // includes the local id itself (hi == 0 && lo == 0)
        const std::uint8_t a = nondet_u8("addr");
        const std::uint32_t e = nondet_u32("expires_s"); verif_assume(e >= 100 && e <= 140);
        PeerContact c{}; c.id = id; c.address = std::string(1, static_cast<char>(a)); c.expires_at = std::chrono::steady_clock::time_point(std::chrono::nanoseconds(static_cast<long long>(e) * kNs));
        const std::uint8_t adv = nondet_u8("advance_s"); verif_assume(adv <= 20);
        verif_env::g_steady_ns += static_cast<long long>(adv) * kNs;
        table.register_peer(c);
        last = id; last_addr = a; last_exp = static_cast<long long>(e) * kNs; have = true;
        check_shape(table, "C07: no bucket holds more than 16 contacts");
        // the contact just refreshed is held once with its newest address and expiry (unless it is the local id)
        std::size_t cnt = 0;
        for (const auto& bucket : table.buckets_) for (const auto& ent : bucket) {
            verif_assert(ent.id != self_id(), "C07: the local id is never held");
            if (ent.id == last) { ++cnt; verif_assert(ent.address.size() == 1 && static_cast<std::uint8_t>(ent.address[0]) == last_addr && ent.expires_at.time_since_epoch().count() == last_exp, "C07: a refreshed contact keeps a single entry with its newest address and expiry"); }
        }
        verif_assert(cnt == (last == self_id() ? 0u : 1u), "C07: registered contact is held exactly once (never the local id)");
    }
    (void)have;
    verif_reach("shape-checked");
}
// overflow: 17 distinct live contacts of one bucket -> 16 held, the oldest dropped
extern "C" void h_c07_overflow(unsigned long) {
    KademliaTable table(self_id());
    verif_env::g_steady_ns = 100 * kNs;
    const std::uint8_t base = nondet_u8("base");
    for (unsigned i = 0; i < 17; ++i) {
        PeerId id = self_id(); id[0] ^= 0x80; id[31] = static_cast<std::uint8_t>(base + i);
        PeerContact c{}; c.id = id; c.address = "z"; c.expires_at = std::chrono::steady_clock::time_point(std::chrono::nanoseconds(900 * kNs));
        table.register_peer(c);
    }
    check_shape(table, "C07: no bucket holds more than 16 contacts");
    verif_assert(table.buckets_[255].size() == 16, "C07: a full bucket stays at 16 contacts");
    verif_reach("overflowed");
}
