// Harness unit for the control response path (C29): the server's ControlServer::Impl::send_response and the client's
// recv_line / recv_exact / parse_response, both lifted textually from the current sources. The bytes the server "sends" are
// captured by the harness and played back to the client through recv(). In the engine the server's std::ostringstream is the
// source-level sink of harness/logger.cpp's kind; natively the real one runs.
#include "stdmodels.h"
#include <span>
#include <charconv>
#include <algorithm>
#include <cctype>
#include <sstream>
#include <sys/types.h>
#include <sys/socket.h>
#include "ephemeralnet/daemon/ControlPlane.hpp"
namespace { std::string g_wire; std::size_t g_read = 0; }
extern "C" ssize_t recv(int, void* buf, size_t n, int) {          // plays back what the server wrote
    if (g_read >= g_wire.size() || n == 0) return 0;
    const std::size_t k = std::min(n, g_wire.size() - g_read);
    for (std::size_t i = 0; i < k; ++i) static_cast<char*>(buf)[i] = g_wire[g_read + i];
    g_read += k; return static_cast<ssize_t>(k);
}
namespace ephemeralnet::daemon { std::size_t max_control_stream_bytes() { return 1 << 20; } }
#ifndef VERIF_NATIVE
namespace verif_io {
struct Sink {
    std::string buf;
    Sink& operator<<(const char* s) { buf += s; return *this; }
    Sink& operator<<(char c) { buf.push_back(c); return *this; }
    Sink& operator<<(const std::string& s) { buf += s; return *this; }
    std::string str() const { return buf; }
};
}
#endif
#ifndef VERIF_NATIVE
namespace std { using verif_sink_alias2 = verif_io::Sink; }
#endif
namespace server_side {
using namespace ephemeralnet::daemon;
using NativeSocket = int;
bool send_all(NativeSocket, const char* data, std::size_t length) { g_wire.append(data, length); return true; }
#include SNIP_AUTO
struct Impl {
#ifndef VERIF_NATIVE
#define ostringstream verif_sink_alias2
#endif
#include SNIP_SEND_RESPONSE
#ifndef VERIF_NATIVE
#undef ostringstream
#endif
};
}
namespace client_side {
using namespace ephemeralnet::daemon;
using NativeSocket = int;
#include SNIP_C_K1
#include SNIP_C_TO_UPPER
#include SNIP_C_RECV_LINE
#include SNIP_C_RECV_EXACT
#include SNIP_AUTO
#include SNIP_C_PARSE_RESPONSE
}
using namespace ephemeralnet::daemon;
static std::string sym_value(unsigned long n, const char* tag) {
    std::string t;
    for (unsigned long i = 0; i < n; ++i) { const std::uint8_t c = nondet_u8(tag); verif_assume((c >= 0x20 && c <= 0x7e) || c == '\n'); t.push_back(static_cast<char>(c)); }   // what handlers emit: printable text and line breaks
    return t;
}
// one response with a CODE field, a second field `key_kind` (0 ENTRIES, 1 MESSAGE, 2 WARNINGS) of vlen symbolic characters, payload of plen bytes
extern "C" void h_c29_response(unsigned long key_kind, unsigned long vlen, unsigned long plen) {
    ControlFields fields; fields["CODE"] = "OK_X";
    const char* key = key_kind == 0 ? "ENTRIES" : key_kind == 1 ? "MESSAGE" : "WARNINGS";
    const std::string value = sym_value(vlen, "value_char");
    fields[key] = value;
    std::vector<std::uint8_t> payload(plen); if (plen) nondet_bytes(payload.data(), plen, "payload");
    const bool success = nondet_bool("success");
    g_wire.clear(); g_read = 0;
    server_side::Impl::send_response(5, fields, success, plen ? std::span<const std::uint8_t>(payload) : std::span<const std::uint8_t>());
    const ControlResponse got = client_side::parse_response(5, nullptr);
    verif_assert(got.success == success, "C29: the client sees the status the daemon sent");
    const auto it = got.fields.find(key);
    verif_assert(it != got.fields.end() && it->second == value, "C29: every field value the daemon sent - multi-line values included - reaches the client intact");
    const auto code = got.fields.find("CODE");
    verif_assert(code != got.fields.end() && code->second == "OK_X", "C29: the other fields are unaffected");
    verif_assert(got.has_payload == (plen > 0) && got.payload == payload, "C29: the payload reaches the client intact");
    verif_assert(g_read == g_wire.size(), "C29: the client consumes exactly the response");
    verif_reach("parsed");
}
// a long single value: the chunk list of `entries` chunks as handle_list formats it (64 hex digits,size,state,ttl per line); the first
// and last characters of the list and the last digit of every 50th line are symbolic. The list is longer than the 16 KiB the client
// used to allow per line.
extern "C" void h_c29_long(unsigned long entries) {
    ControlFields fields; fields["CODE"] = "OK_LIST";
    std::string value;
    for (unsigned long e = 0; e < entries; ++e) {
        if (e) value.push_back('\n');
        for (int i = 0; i < 64; ++i) value.push_back("0123456789abcdef"[(e + i) & 15]);
        value += ",1048576,complete,360";
        if (e % 50 == 0) { const std::uint8_t c = nondet_u8("digit"); verif_assume(c >= '0' && c <= '9'); value.push_back(static_cast<char>(c)); } else value.push_back('0');
    }
    { const std::uint8_t c = nondet_u8("first"); verif_assume((c >= '0' && c <= '9') || (c >= 'a' && c <= 'f')); value[0] = static_cast<char>(c); }
    fields["ENTRIES"] = value; fields["COUNT"] = std::to_string(entries);
    g_wire.clear(); g_read = 0;
    server_side::Impl::send_response(5, fields, true, std::span<const std::uint8_t>());
    const ControlResponse got = client_side::parse_response(5, nullptr);
    verif_assert(got.success, "C29: the client sees the status the daemon sent");
    const auto it = got.fields.find("ENTRIES");
    verif_assert(it != got.fields.end() && it->second == value, "C29: a chunk list of any length reaches the client intact");
    const auto cnt = got.fields.find("COUNT");
    verif_assert(cnt != got.fields.end() && cnt->second == std::to_string(entries), "C29: the fields after a long value are not lost");
    verif_assert(g_read == g_wire.size(), "C29: the client consumes exactly the response");
    verif_reach("parsed-long");
}
