// Harness unit for scheduler kernels of core/Node.cpp on a PARTIAL Node (C21 throttle, C23 upload slots, C24 back-off / fetch slots).
// core/Node.cpp itself (2800 lines, the whole daemon) is not included: the member functions under test are lifted textually from the
// current source at check time and compiled against the real class declaration (ephemeralnet/core/Node.hpp, private made public).
// Only the data members these functions touch are constructed, inside raw storage; nothing else of Node exists.
#include "stdmodels.h"
#include <atomic>
#define private public
#include "ephemeralnet/core/Node.hpp"
#undef private
#include "src/core/ChunkStore.cpp"
namespace { ephemeralnet::protocol::Manifest g_manifest; }
namespace ephemeralnet::protocol { Manifest decode_manifest(const std::string&) { return g_manifest; } }
namespace ephemeralnet {
namespace {
using SchedulerLock = std::unique_lock<std::recursive_mutex>;
#include SNIP_K_FAILURE_WINDOW
#include SNIP_K_LOCKOUT
#include SNIP_K_THRESHOLD
#include SNIP_AUTO
// only reached with a non-empty endpoint, which the harness never sets: present for compilation only
std::optional<std::pair<std::string, std::uint16_t>> parse_endpoint(const std::string&) { return std::nullopt; }
}
#include SNIP_REGISTER_ANNOUNCE
#include SNIP_SENDER_LOCKED
#include SNIP_RECORD_FAILURE
#include SNIP_CLEAR_FAILURES
#include SNIP_BACKOFF
#include SNIP_ENQUEUE_UPLOAD
#include SNIP_CAN_ACCEPT
#include SNIP_CAN_DISPATCH_UPLOAD
#include SNIP_MAKE_UPLOAD_KEY
#include SNIP_UPLOAD_START
#include SNIP_UPLOAD_END
#include SNIP_PRUNE_UPLOADS
#include SNIP_PROCESS_UPLOADS
#include SNIP_CAN_DISPATCH_FETCH
#include SNIP_DISPATCH_START
#include SNIP_DISPATCH_END
#include SNIP_CLEAR_PENDING
#include SNIP_SCHEDULE_ASSIGNED
#include SNIP_DISPATCH_PENDING
// cut points of the fetch path: role ledger, provider refresh and the transport sends (arbitrary outcome); process_pending_fetches is driven by the harness step by step
void Node::note_peer_seed(const ChunkId&, const PeerId&) {}
void Node::note_local_leecher(const ChunkId&) {}
void Node::refresh_provider_count(PendingFetchState&, std::chrono::steady_clock::time_point, bool) {}
#ifdef VERIF_REAL_PPF
#include SNIP_PPF
#else
void Node::process_pending_fetches() {}
#endif
static unsigned g_send_calls[2] = {0, 0};     // dispatch attempts per chunk (chunk_n(0) / chunk_n(1)) since the harness last reset them
bool Node::send_chunk_request_direct(const ChunkId& c, const PeerId&) { ++g_send_calls[c[0] == 0xC1 ? 1 : 0]; return nondet_bool("request_sent"); }
bool Node::request_chunk(const PeerId&, const std::string&, std::uint16_t, const std::string&) { return false; }
// the send path (manifest lookup, record lookup, signing, transport) is cut: whether a request can be served and sent is arbitrary;
// exactly like the real dispatch_upload, a slot is taken (note_upload_start) only after a successful send
static unsigned g_negative_acks = 0;
bool Node::dispatch_upload(const PendingUploadRequest& request) {
    if (!nondet_bool("served_and_sent")) { ++g_negative_acks; return false; }
    note_upload_start(request, 1);
    return true;
}
}  // namespace ephemeralnet
using namespace ephemeralnet;
namespace {
constexpr long long kNs = 1000000000LL;
struct PartialNode {
    alignas(Node) unsigned char raw[sizeof(Node)];
    Node* node() { return reinterpret_cast<Node*>(raw); }
    PartialNode() {
        Node* n = node();
        new (&n->config_) Config();
        new (&n->peer_announce_history_) decltype(n->peer_announce_history_)();
        new (&n->peer_announce_failure_history_) decltype(n->peer_announce_failure_history_)();
        new (&n->peer_announce_lockouts_) decltype(n->peer_announce_lockouts_)();
        new (&n->scheduler_mutex_) std::recursive_mutex();
        new (&n->pending_uploads_) decltype(n->pending_uploads_)();
        new (&n->active_uploads_) decltype(n->active_uploads_)();
        new (&n->active_uploads_per_peer_) decltype(n->active_uploads_per_peer_)();
        new (&n->last_upload_rotation_) std::chrono::steady_clock::time_point();
        new (&n->total_completed_uploads_) std::atomic<std::uint64_t>(0);
        new (&n->peak_active_uploads_) std::atomic<std::size_t>(0);
        new (&n->pending_chunk_fetches_) decltype(n->pending_chunk_fetches_)();
        new (&n->active_peer_requests_) decltype(n->active_peer_requests_)();
        new (&n->manifest_cache_) decltype(n->manifest_cache_)();
        new (&n->chunk_store_) ChunkStore(Config{});
    }
};
PeerId peer_n(unsigned n) { PeerId p{}; p[0] = static_cast<std::uint8_t>(0xA0 + n); p[31] = static_cast<std::uint8_t>(n); return p; }
ChunkId chunk_n(unsigned n) { ChunkId c{}; c[0] = static_cast<std::uint8_t>(0xC0 + n); c[31] = static_cast<std::uint8_t>(7 * n + 1); return c; }
std::chrono::steady_clock::time_point tp(long long ns) { return std::chrono::steady_clock::time_point(std::chrono::nanoseconds(ns)); }
}
// ---------------------------------------------------------------- C21: throttle and lock-out kernels
// k announces of one peer (interleaved with another peer's) at symbolic non-decreasing times (whole seconds); config symbolic.
extern "C" void h_c21_throttle(unsigned long k) {
    PartialNode pn; Node* n = pn.node();
    const unsigned min_interval = nondet_u8("min_interval_s") & 63, burst = nondet_u8("burst_limit") & 3, window = nondet_u8("window_s");
    verif_assume(min_interval >= 1 && burst >= 1 && window >= min_interval);
    n->config_.announce_min_interval = std::chrono::seconds(min_interval); n->config_.announce_burst_limit = burst; n->config_.announce_burst_window = std::chrono::seconds(window);
    long long now = 1000, admitted[8]; unsigned na = 0;
    for (unsigned long i = 0; i < k; ++i) {
        now += nondet_u8("advance_s");
        const bool other = nondet_bool("other_peer");
        if (verif_concretize(other, 2)) { (void)n->register_incoming_announce(peer_n(1), tp(now * kNs)); continue; }
        const bool ok = n->register_incoming_announce(peer_n(0), tp(now * kNs));
        // reference: admitted iff >= min_interval after the last admitted one and fewer than `burst` admitted ones within the window ending now
        bool expect = true;
        if (na > 0 && now - admitted[na - 1] < static_cast<long long>(min_interval)) expect = false;
        unsigned in_window = 0; for (unsigned j = 0; j < na; ++j) if (admitted[j] >= now - static_cast<long long>(window)) ++in_window;
        if (in_window >= burst) expect = false;
        verif_assert(ok == expect, "C21: an announce gets through exactly when it respects the minimum interval and the burst limit of the window (peers do not interfere)");
        if (ok) { admitted[na++] = now; verif_reach("admitted"); } else verif_reach("throttled");
    }
    for (unsigned i = 1; i < na; ++i) verif_assert(admitted[i] - admitted[i - 1] >= static_cast<long long>(min_interval), "C21: admitted announces are at least the minimum interval apart");
}
// failures at symbolic times: three within 120 s lock the peer out for exactly 180 s
extern "C" void h_c21_lockout(unsigned long k) {
    PartialNode pn; Node* n = pn.node();
    long long now = 5000, fails[8]; unsigned nf = 0; long long locked_until = -1;
    for (unsigned long i = 0; i < k; ++i) {
        now += nondet_u8("advance_s");
        const bool query = nondet_bool("query");
        if (verif_concretize(query, 2)) {
            const bool locked = n->announce_sender_locked(peer_n(0), tp(now * kNs));
            verif_assert(locked == (locked_until >= 0 && now < locked_until), "C21: a peer is locked out exactly for 180 s after its third rejection within 120 s");
            if (locked_until >= 0 && now >= locked_until) locked_until = -1;
            verif_assert(!n->announce_sender_locked(peer_n(1), tp(now * kNs)), "C21: another peer is not locked out");
            if (locked) verif_reach("locked"); else verif_reach("unlocked");
        } else {
            n->record_announce_failure(peer_n(0), tp(now * kNs));
            if (locked_until >= 0 && now < locked_until) continue;            // still locked: the failure is not counted
            if (locked_until >= 0 && now >= locked_until) locked_until = -1;
            unsigned keep = 0; for (unsigned j = 0; j < nf; ++j) if (now - fails[j] <= 120) fails[keep++] = fails[j];
            nf = keep; fails[nf++] = now;
            if (nf >= 3) { locked_until = now + 180; nf = 0; verif_reach("lockout-started"); }
        }
    }
}
// ---------------------------------------------------------------- C24: back-off kernel
extern "C" void h_c24_backoff(unsigned long) {
    PartialNode pn; Node* n = pn.node();
    const std::int32_t initial = static_cast<std::int32_t>(nondet_u32("initial_backoff_s")), maxb = static_cast<std::int32_t>(nondet_u32("max_backoff_s")), succ = static_cast<std::int32_t>(nondet_u32("success_interval_s"));
    verif_assume(initial >= -5 && initial <= 86400 && maxb >= -5 && maxb <= 86400 && succ >= -5 && succ <= 86400);
    const std::uint8_t limit = nondet_u8("attempt_limit");
    std::uint8_t attempts = nondet_u8("attempts");
    verif_assume(attempts <= 12);
    attempts = static_cast<std::uint8_t>(verif_concretize(attempts, 16));      // enumerated: the doubling factor 2^(attempts-1) is then a constant per path
    n->config_.fetch_retry_initial_backoff = std::chrono::seconds(initial); n->config_.fetch_retry_max_backoff = std::chrono::seconds(maxb);
    n->config_.fetch_retry_success_interval = std::chrono::seconds(succ); n->config_.fetch_retry_attempt_limit = limit;
    verif_env::g_steady_ns = 7000 * kNs;
    Node::PendingFetchState st{}; st.attempts = attempts;
    const bool success = nondet_bool("success");
    n->schedule_next_fetch_attempt(st, success);
    const long long delay_ns = st.next_attempt.time_since_epoch().count() - 7000 * kNs;
    if (success) { verif_assert(delay_ns == static_cast<long long>(succ > 0 ? succ : 1) * kNs, "C24: after a success the next attempt is one success interval away"); verif_reach("success"); }
    else if (limit > 0 && attempts >= limit) { verif_assert(st.next_attempt == std::chrono::steady_clock::time_point::max(), "C24: once the attempt limit is exhausted no further attempt is scheduled"); verif_reach("exhausted"); }
    else {
        const long long base = initial > 0 ? initial : 1;
        const unsigned e = attempts > 0 ? attempts - 1u : 0u;
        long long want = base << (e > 8 ? 8 : e);                        // doubles per attempt (capped at 2^8 doublings)
        if (maxb > 0 && want > maxb) want = maxb;
        if (want <= 0) want = 1;
        verif_assert(delay_ns == want * kNs, "C24: retry delays start at the initial back-off and double up to the maximum");
        verif_reach("backoff");
    }
}
// ---------------------------------------------------------------- C23: upload slots. events: R request, T tick (process), A acknowledgement
static void check_upload_invariant(Node* n, unsigned max_total, unsigned max_peer) {
    if (max_total) verif_assert(n->active_uploads_.size() <= max_total, "C23: at most the configured number of uploads run at once");
    for (unsigned p = 0; p < 2; ++p) {
        std::size_t entries = 0;
        for (const auto& e : n->active_uploads_) if (e.second.peer_id == peer_n(p)) ++entries;
        const auto it = n->active_uploads_per_peer_.find(peer_id_to_string(peer_n(p)));
        const std::size_t counter = it == n->active_uploads_per_peer_.end() ? 0 : it->second;
        if (max_peer) verif_assert(counter <= max_peer, "C23: at most the configured number of uploads per peer");
        verif_assert(counter == entries, "C23: a peer's in-use slot count equals its uploads in flight (so it is zero again once all are acknowledged or timed out)");
    }
}
extern "C" void h_c23_uploads(unsigned long k, unsigned long seq) {
    PartialNode pn; Node* n = pn.node();
    const unsigned max_total = nondet_u8("max_parallel") & 3, max_peer = nondet_u8("max_per_peer") & 3;
    verif_assume(max_total <= 2 && max_peer <= 2);
    n->config_.upload_max_parallel_transfers = static_cast<std::uint16_t>(max_total); n->config_.upload_max_transfers_per_peer = static_cast<std::uint16_t>(max_peer);
    const unsigned timeout = nondet_u8("transfer_timeout_s") & 7; n->config_.upload_transfer_timeout = std::chrono::seconds(timeout);
    n->config_.upload_reconsider_interval = std::chrono::seconds(nondet_u8("reconsider_s") & 1);
    verif_env::start_clock();
    for (unsigned long i = 0; i < k; ++i) {
        verif_env::advance_clock();
        const unsigned op = static_cast<unsigned>(seq % 3); seq /= 3;
        const bool pb = nondet_bool("peer"), cb = nondet_bool("chunk");
        if (i == 0) verif_assume(!pb && !cb);          // symmetry: peers and chunks are interchangeable labels, the first event names peer 0 / chunk 0
        const unsigned p = verif_concretize(pb, 2) ? 1 : 0, c = verif_concretize(cb, 2) ? 1 : 0;
        if (op == 0) { protocol::RequestPayload rq{}; rq.chunk_id = chunk_n(c); n->enqueue_upload_request(rq, peer_n(p), 1); n->process_pending_uploads(); verif_reach("request"); }
        else if (op == 1) { n->process_pending_uploads(); verif_reach("tick"); }
        else { n->note_upload_end(peer_n(p), chunk_n(c), true); n->process_pending_uploads(); verif_reach("ack"); }   // handle_acknowledge's effect on the slots
        check_upload_invariant(n, max_total, max_peer);
    }
}
// ---------------------------------------------------------------- C24: per-peer fetch slots (counter == in-flight entries)
extern "C" void h_c24_fetch_slots(unsigned long k) {
    PartialNode pn; Node* n = pn.node();
    const unsigned limit = nondet_u8("max_parallel_requests") & 3; n->config_.fetch_max_parallel_requests = static_cast<std::uint16_t>(limit);
    for (unsigned long i = 0; i < k; ++i) {
        std::uint8_t op = nondet_u8("op"); verif_assume(op < 3); op = static_cast<std::uint8_t>(verif_concretize(op, 4));
        const bool cb = nondet_bool("chunk"); const unsigned c = verif_concretize(cb, 2) ? 1 : 0;
        const std::string key = chunk_id_to_string(chunk_n(c));
        if (op == 0) {             // a fetch for chunk c from peer 0 becomes pending (not yet in flight)
            Node::PendingFetchState st{}; st.chunk_id = chunk_n(c); st.peer_id = peer_n(0);
            if (n->pending_chunk_fetches_.find(key) == n->pending_chunk_fetches_.end()) n->pending_chunk_fetches_[key] = st;
        } else if (op == 1) {      // dispatch as dispatch_pending_fetch does: only when a slot is free
            auto it = n->pending_chunk_fetches_.find(key);
            if (it != n->pending_chunk_fetches_.end() && !it->second.in_flight && n->can_dispatch_fetch(it->second)) { n->note_dispatch_start(it->second); it->second.in_flight = true; verif_reach("dispatched"); }
        } else { n->clear_pending_fetch(key); verif_reach("cleared"); }
        std::size_t in_flight = 0; for (const auto& e : n->pending_chunk_fetches_) if (e.second.in_flight) ++in_flight;
        const auto it = n->active_peer_requests_.find(peer_id_to_string(peer_n(0)));
        const std::size_t counter = it == n->active_peer_requests_.end() ? 0 : it->second;
        verif_assert(counter == in_flight, "C24: a peer's in-flight count equals its outstanding requests (zero when none is outstanding)");
        if (limit) verif_assert(counter <= limit, "C24: no peer has more in-flight requests than the configured limit");
    }
}
// announce / re-announce of assigned fetches (schedule_assigned_fetch), dispatch (dispatch_pending_fetch under the same guard as
// process_pending_fetches: not in flight and a free slot) and arrival (clear_pending_fetch), two peers x two chunks
extern "C" void h_c24_reannounce(unsigned long k, unsigned long seq) {
    PartialNode pn; Node* n = pn.node();
    const unsigned limit = nondet_u8("max_parallel_requests") & 3; n->config_.fetch_max_parallel_requests = static_cast<std::uint16_t>(limit);
    verif_env::start_clock();
    g_manifest = protocol::Manifest{}; g_manifest.threshold = 1;
    for (unsigned long i = 0; i < k; ++i) {
        verif_env::advance_clock();
        const unsigned op = static_cast<unsigned>(seq % 3); seq /= 3;
        const bool pb = nondet_bool("peer"), cb = nondet_bool("chunk");
        if (i == 0) verif_assume(!pb && !cb);          // symmetry
        const unsigned p = verif_concretize(pb, 2) ? 1 : 0, c = verif_concretize(cb, 2) ? 1 : 0;
        const std::string key = chunk_id_to_string(chunk_n(c));
        if (op == 0) {
            protocol::AnnouncePayload a{}; a.chunk_id = chunk_n(c); a.peer_id = peer_n(p); a.manifest_uri = "eph://m"; a.assigned_shards.push_back(1);
            g_manifest.chunk_id = chunk_n(c);
            n->schedule_assigned_fetch(a); verif_reach("announce");
        } else if (op == 1) {
            auto it = n->pending_chunk_fetches_.find(key);
            if (it != n->pending_chunk_fetches_.end() && !it->second.in_flight && n->can_dispatch_fetch(it->second)) { (void)n->dispatch_pending_fetch(it->second); verif_reach("dispatch"); }
        } else { n->clear_pending_fetch(key); verif_reach("arrival"); }
        for (unsigned q = 0; q < 2; ++q) {
            std::size_t in_flight = 0; for (const auto& e : n->pending_chunk_fetches_) if (e.second.in_flight && e.second.peer_id == peer_n(q)) ++in_flight;
            const auto it = n->active_peer_requests_.find(peer_id_to_string(peer_n(q)));
            const std::size_t counter = it == n->active_peer_requests_.end() ? 0 : it->second;
            verif_assert(counter == in_flight, "C24: a peer's in-flight count equals its outstanding requests, also across re-announcements (zero when none is outstanding)");
            if (limit) verif_assert(counter <= limit, "C24: no peer has more in-flight requests than the configured limit");
        }
    }
}
// the three lock-out operations must not change what the throttle decides: two nodes get the same admitted history; on one of
// them a lock-out operation runs in between; the next announce must receive the same verdict on both (at any later time).
extern "C" void h_c21_independence(unsigned long which_op) {
    PartialNode pa, pb; Node* a = pa.node(); Node* b = pb.node();
    const unsigned min_interval = nondet_u8("min_interval_s") & 63, burst = (nondet_u8("burst_limit") & 3), window = nondet_u8("window_s");
    verif_assume(min_interval >= 1 && burst >= 1 && window >= min_interval);
    for (Node* n : {a, b}) { n->config_.announce_min_interval = std::chrono::seconds(min_interval); n->config_.announce_burst_limit = burst; n->config_.announce_burst_window = std::chrono::seconds(window); }
    long long now = 1000;
    for (int i = 0; i < 2; ++i) {                    // a common prefix of announces (admitted or not, identically on both nodes)
        now += nondet_u8("advance_s");
        const bool ra = a->register_incoming_announce(peer_n(0), tp(now * kNs)), rb = b->register_incoming_announce(peer_n(0), tp(now * kNs));
        verif_assert(ra == rb, "C21: the throttle is deterministic");
    }
    // node A additionally sees lock-out traffic for the same peer: failures (possibly ending in a lock-out), queries, a clear
    for (int i = 0; i < 4; ++i) {
        now += nondet_u8("advance_s");
        if (which_op == 0) a->record_announce_failure(peer_n(0), tp(now * kNs));
        else if (which_op == 1) { if (i < 3) a->record_announce_failure(peer_n(0), tp(now * kNs)); else (void)a->announce_sender_locked(peer_n(0), tp(now * kNs)); }
        else { if (i < 3) a->record_announce_failure(peer_n(0), tp(now * kNs)); else a->clear_announce_failures(peer_n(0)); }
    }
    now += nondet_u8("advance_s");
    const bool va = a->register_incoming_announce(peer_n(0), tp(now * kNs)), vb = b->register_incoming_announce(peer_n(0), tp(now * kNs));
    verif_assert(va == vb, "C21: rejections, lock-outs and their expiry never let an announce through that the minimum interval / burst window forbid (nor block one they allow)");
    verif_reach("compared");
}
// ---------------------------------------------------------------- C24: the real process_pending_fetches (compiled in with VERIF_REAL_PPF)
// events (base-3 digits of seq): 0 = assigned-fetch announcement (schedule_assigned_fetch, which runs process_pending_fetches),
// 1 = tick (the clock advances, process_pending_fetches), 2 = the chunk arrives (stored, and - as receive_chunk does - the pending entry
// cleared; or only stored, e.g. by a local store). Peers, chunks, send outcomes, clock advances, retry settings and manifest expiry symbolic.
#ifdef VERIF_REAL_PPF
extern "C" void h_c24_ticks(unsigned long k, unsigned long seq) {
    PartialNode pn; Node* n = pn.node();
    const unsigned limit = nondet_u8("max_parallel_requests") & 3; n->config_.fetch_max_parallel_requests = static_cast<std::uint16_t>(limit);
    const unsigned attempt_limit = nondet_u8("attempt_limit") & 3; n->config_.fetch_retry_attempt_limit = static_cast<std::uint8_t>(attempt_limit);
    n->config_.fetch_retry_success_interval = std::chrono::seconds(nondet_u8("success_interval_s") & 7);
    n->config_.fetch_retry_initial_backoff = std::chrono::seconds(nondet_u8("initial_backoff_s") & 7);
    n->config_.fetch_retry_max_backoff = std::chrono::seconds(nondet_u8("max_backoff_s") & 15);
    verif_env::start_clock();
    constexpr long long kWallBase = 1700000000LL * kNs;
    const long long steady0 = verif_env::g_steady_ns;
    verif_env::g_system_ns = kWallBase;
    // the announced manifest either never expires (0) or expires 0..63 s after the start
    const bool expiring = nondet_bool("manifest_expires"); const unsigned life = nondet_u8("manifest_life_s") & 63;
    g_manifest = protocol::Manifest{}; g_manifest.threshold = 1;
    if (expiring) g_manifest.expires_at = std::chrono::system_clock::time_point(std::chrono::duration_cast<std::chrono::system_clock::duration>(std::chrono::nanoseconds(kWallBase + static_cast<long long>(life) * kNs)));
    bool held[2] = {false, false};
    g_send_calls[0] = g_send_calls[1] = 0;
    for (unsigned long i = 0; i < k; ++i) {
        verif_env::advance_clock(); verif_env::g_system_ns = kWallBase + (verif_env::g_steady_ns - steady0);
        const unsigned op = static_cast<unsigned>(seq % 3); seq /= 3;
        // which peer / chunk an event concerns is chosen only where it matters (announcement: both, arrival: the chunk)
        unsigned p = 0, c = 0;
        if (op != 1) { const bool cb = nondet_bool("chunk"); if (i == 0) verif_assume(!cb); c = verif_concretize(cb, 2) ? 1 : 0; }
        if (op == 0) { const bool pb = nondet_bool("peer"); if (i == 0) verif_assume(!pb); p = verif_concretize(pb, 2) ? 1 : 0; }
        const std::string key = chunk_id_to_string(chunk_n(c));
        if (op == 0) {
            protocol::AnnouncePayload a{}; a.chunk_id = chunk_n(c); a.peer_id = peer_n(p); a.manifest_uri = "eph://m"; a.assigned_shards.push_back(1);
            g_manifest.chunk_id = chunk_n(c);
            g_send_calls[c] = 0;                       // attempts are counted per announcement
            n->schedule_assigned_fetch(a); verif_reach("announce");
        } else if (op == 1) {
            n->process_pending_fetches(); verif_reach("tick");
            const long long wall = verif_env::g_system_ns;
            for (const auto& e : n->pending_chunk_fetches_) {
                const unsigned ec = e.second.chunk_id[0] == 0xC1 ? 1 : 0;
                verif_assert(!held[ec], "C24: a pending fetch is dropped by the next tick once the chunk is held locally");
                const auto exp = e.second.manifest_expires;
                verif_assert(exp == std::chrono::system_clock::time_point{} || std::chrono::duration_cast<std::chrono::nanoseconds>(exp.time_since_epoch()).count() > wall, "C24: a pending fetch is dropped by the next tick once its manifest has expired");
            }
        } else {
            ChunkData d; d.push_back(1);
            n->chunk_store_.put(chunk_n(c), std::move(d), std::chrono::seconds(3600)); held[c] = true;
            if (nondet_bool("arrival_clears_entry")) n->clear_pending_fetch(key);
            verif_reach("arrival");
        }
        std::size_t total = 0;
        for (unsigned q = 0; q < 2; ++q) {
            std::size_t in_flight = 0; for (const auto& e : n->pending_chunk_fetches_) if (e.second.in_flight && e.second.peer_id == peer_n(q)) ++in_flight;
            const auto it = n->active_peer_requests_.find(peer_id_to_string(peer_n(q)));
            const std::size_t counter = it == n->active_peer_requests_.end() ? 0 : it->second;
            verif_assert(counter == in_flight, "C24: a peer's in-flight count equals its outstanding requests over announcements, ticks, time-outs and arrivals (zero when none is outstanding)");
            if (limit) verif_assert(counter <= limit, "C24: no peer has more in-flight requests than the configured limit");
            total += in_flight;
        }
        (void)total;
        if (attempt_limit) for (unsigned c2 = 0; c2 < 2; ++c2)
            verif_assert(g_send_calls[c2] <= attempt_limit, "C24: no more requests than the attempt limit are sent for one announced fetch (it is dropped once the limit is exhausted)");
    }
}
#endif
