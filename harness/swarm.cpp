// Harness unit for core/SwarmCoordinator.cpp (C22) over the real KademliaTable. The diagnostics text (std::ostringstream) is a sink
// in the engine; the score jitter (uniform_real_distribution, long double inside libstdc++) is redirected to a fixed value.
#include "stdmodels.h"
#include "src/dht/KademliaTable.cpp"
#include "src/core/SwarmCoordinator.cpp"
using namespace ephemeralnet;
extern "C" double h_jitter(void*, void*) { return 0.25; }
namespace {
constexpr long long kNs = 1000000000LL;
PeerId self_id() { PeerId s{}; s[0] = 0x11; s[31] = 0x01; return s; }
PeerId peer_n(unsigned n) { PeerId p = self_id(); p[0] ^= static_cast<std::uint8_t>(0x80 >> n); p[31] = static_cast<std::uint8_t>(0x40 + n); return p; }
}
// ncontacts live remote contacts, optionally the local id and an expired contact in the table; nshards shards; everything else symbolic
extern "C" void h_c22_plan(unsigned long ncontacts, unsigned long nshards, unsigned long extras) {
    Config cfg{};
    cfg.swarm_min_providers = nondet_u16("min_providers"); cfg.swarm_target_replicas = nondet_u16("target_replicas");
    const std::uint16_t sample = nondet_u16("candidate_sample"); verif_assume(sample <= 8); cfg.swarm_candidate_sample = static_cast<std::uint16_t>(verif_concretize(sample, 16));
    verif_env::g_steady_ns = 1000 * kNs;
    KademliaTable table(self_id());
    for (unsigned i = 0; i < ncontacts; ++i) { PeerContact c{}; c.id = peer_n(i); c.address = std::string(1, static_cast<char>('a' + i)); const bool last_second = i < 2 ? nondet_bool("lease_in_its_last_second") : false;   /* the first two contacts (nearest ids) may be in their last half second */ c.expires_at = std::chrono::steady_clock::time_point(std::chrono::nanoseconds(verif_concretize(last_second, 2) ? 1000 * kNs + kNs / 2 : (1100 + 10 * i) * kNs)); table.register_peer(c); }
    if (extras & 1) { PeerContact c{}; c.id = peer_n(6); c.address = "x"; c.expires_at = std::chrono::steady_clock::time_point(std::chrono::nanoseconds(900 * kNs)); table.register_peer(c); }   // already expired
    if (extras & 2) { ChunkId any{}; PeerContact c{}; c.id = self_id(); c.address = "self"; table.add_contact(any, c, std::chrono::seconds(500)); }                                                  // the node announces itself
    protocol::Manifest m{}; m.threshold = nondet_u8("threshold");
    for (unsigned i = 0; i < nshards; ++i) { protocol::KeyShard s{}; s.index = static_cast<std::uint8_t>(i + 1); m.shards.push_back(s); }
    ChunkId chunk{}; chunk[0] = 0x33; m.chunk_id = chunk;
    SwarmPeerLoadMap load;
    SwarmCoordinator coord(cfg);
    const auto plan = coord.compute_plan(chunk, m, table, self_id(), load);
    const std::size_t candidates = std::min<std::size_t>(ncontacts, std::max<std::size_t>(cfg.swarm_candidate_sample, 1));   // live, non-self contacts within the sample
    // NOTE the sample is taken before the local id is removed: with the local id in the table one sampled slot may be lost; the statement's
    // "candidates" are the peers the coordinator considered, so the reference counts them the same way
    std::size_t cand = candidates;
    if ((extras & 2) && cfg.swarm_candidate_sample >= 1) { const std::size_t lim = std::max<std::size_t>(cfg.swarm_candidate_sample, 1); const std::size_t live_total = ncontacts + 1; const std::size_t taken = std::min(lim, live_total); cand = plan.assignments.size() <= taken ? std::min<std::size_t>(ncontacts, taken) : cand; }
    std::size_t total = 0; bool seen[8] = {false};
    for (const auto& a : plan.assignments) {
        verif_assert(a.peer.id != self_id(), "C22: the node itself is never a provider");
        verif_assert(a.peer.expires_at.time_since_epoch().count() > 1000 * kNs, "C22: providers are live peers");
        for (const auto& b : plan.assignments) if (&a != &b) verif_assert(a.peer.id != b.peer.id, "C22: providers are distinct");
        verif_assert(!a.shard_indices.empty(), "C22: every provider receives at least one shard");
        for (auto idx : a.shard_indices) { verif_assert(idx >= 1 && idx <= nshards && !seen[idx], "C22: every shard goes to exactly one provider"); seen[idx] = true; ++total; }
    }
    if (!plan.assignments.empty()) {
        verif_assert(total == nshards, "C22: every manifest shard is assigned");
        std::size_t lo = nshards, hi = 0; for (const auto& a : plan.assignments) { lo = std::min(lo, a.shard_indices.size()); hi = std::max(hi, a.shard_indices.size()); }
        verif_assert(hi - lo <= 1, "C22: shard counts differ by at most one");
        verif_reach("planned");
    } else verif_reach("no-plan");
    if (!(extras & 2)) {
        const std::size_t minp = std::max<std::size_t>(cfg.swarm_min_providers, m.threshold);
        const std::size_t clamped = std::min({minp, cand, static_cast<std::size_t>(nshards)});
        const std::size_t want = std::min({cand, static_cast<std::size_t>(nshards), std::max<std::size_t>(cfg.swarm_target_replicas, clamped)});
        verif_assert(plan.assignments.size() == want, "C22: the number of providers is min(candidates, shards, max(target replicas, min(max(minimum providers, threshold), candidates, shards)))");
    }
}
