// Harness unit for crypto/Sha256.cpp + crypto/HmacSha256.cpp (C08).
// (a) h_c08_compress: the real Sha256::transform against a FIPS 180-4 6.2.2 reference for a fully symbolic state and block.
// (b) h_c08_padding:  real update/finalize vs. the FIPS 5.1.1 padding reference, with BOTH compression functions replaced
//     (engine redirect) by one uninterpreted function: digests are equal for every interpretation iff the block sequences agree.
// (c) h_c08_hmac / h_c08_verify: real HmacSha256 vs. RFC 2104 written over the reference hash, same abstraction.
// Natively (replay) nothing is redirected: the real code and the reference run concretely and must agree as well.
#include "verif.h"
#define private public
#include "ephemeralnet/crypto/Sha256.hpp"
#undef private
#include "src/crypto/Sha256.cpp"
#include "src/crypto/HmacSha256.cpp"
#include <vector>
#include <cstring>
using namespace ephemeralnet::crypto;

// ---------------------------------------------------------------- reference (written from FIPS 180-4, not from the repo)
namespace spec {
static const std::uint32_t K[64] = {
    0x428a2f98, 0x71374491, 0xb5c0fbcf, 0xe9b5dba5, 0x3956c25b, 0x59f111f1, 0x923f82a4, 0xab1c5ed5, 0xd807aa98, 0x12835b01, 0x243185be, 0x550c7dc3,
    0x72be5d74, 0x80deb1fe, 0x9bdc06a7, 0xc19bf174, 0xe49b69c1, 0xefbe4786, 0x0fc19dc6, 0x240ca1cc, 0x2de92c6f, 0x4a7484aa, 0x5cb0a9dc, 0x76f988da,
    0x983e5152, 0xa831c66d, 0xb00327c8, 0xbf597fc7, 0xc6e00bf3, 0xd5a79147, 0x06ca6351, 0x14292967, 0x27b70a85, 0x2e1b2138, 0x4d2c6dfc, 0x53380d13,
    0x650a7354, 0x766a0abb, 0x81c2c92e, 0x92722c85, 0xa2bfe8a1, 0xa81a664b, 0xc24b8b70, 0xc76c51a3, 0xd192e819, 0xd6990624, 0xf40e3585, 0x106aa070,
    0x19a4c116, 0x1e376c08, 0x2748774c, 0x34b0bcb5, 0x391c0cb3, 0x4ed8aa4a, 0x5b9cca4f, 0x682e6ff3, 0x748f82ee, 0x78a5636f, 0x84c87814, 0x8cc70208,
    0x90befffa, 0xa4506ceb, 0xbef9a3f7, 0xc67178f2};
static const std::uint32_t H0[8] = {0x6a09e667, 0xbb67ae85, 0x3c6ef372, 0xa54ff53a, 0x510e527f, 0x9b05688c, 0x1f83d9ab, 0x5be0cd19};
static inline std::uint32_t ROTR(std::uint32_t x, unsigned n) { return (x >> n) | (x << (32 - n)); }
// FIPS 180-4 section 6.2.2, steps 1-4
__attribute__((noinline)) void compress(std::uint32_t H[8], const std::uint8_t M[64]) {
    std::uint32_t W[64];
    for (int t = 0; t < 16; ++t) W[t] = (std::uint32_t(M[4 * t]) << 24) | (std::uint32_t(M[4 * t + 1]) << 16) | (std::uint32_t(M[4 * t + 2]) << 8) | std::uint32_t(M[4 * t + 3]);
    for (int t = 16; t < 64; ++t) {
        const std::uint32_t s1 = ROTR(W[t - 2], 17) ^ ROTR(W[t - 2], 19) ^ (W[t - 2] >> 10);
        const std::uint32_t s0 = ROTR(W[t - 15], 7) ^ ROTR(W[t - 15], 18) ^ (W[t - 15] >> 3);
        W[t] = s1 + W[t - 7] + s0 + W[t - 16];
    }
    std::uint32_t a = H[0], b = H[1], c = H[2], d = H[3], e = H[4], f = H[5], g = H[6], h = H[7];
    for (int t = 0; t < 64; ++t) {
        const std::uint32_t S1 = ROTR(e, 6) ^ ROTR(e, 11) ^ ROTR(e, 25);
        const std::uint32_t Ch = (e & f) ^ (~e & g);
        const std::uint32_t T1 = h + S1 + Ch + K[t] + W[t];
        const std::uint32_t S0 = ROTR(a, 2) ^ ROTR(a, 13) ^ ROTR(a, 22);
        const std::uint32_t Maj = (a & b) ^ (a & c) ^ (b & c);
        const std::uint32_t T2 = S0 + Maj;
        h = g; g = f; f = e; e = d + T1; d = c; c = b; b = a; a = T1 + T2;
    }
    H[0] += a; H[1] += b; H[2] += c; H[3] += d; H[4] += e; H[5] += f; H[6] += g; H[7] += h;
}
// FIPS 180-4 section 5.1.1 padding + 6.2 digest
static void digest(const std::uint8_t* msg, std::size_t len, std::uint8_t out[32]) {
    std::uint32_t H[8]; for (int i = 0; i < 8; ++i) H[i] = H0[i];
    std::size_t k = 0;                       // smallest k >= 0 with len + 1 + k = 56 (mod 64)
    while ((len + 1 + k) % 64 != 56) ++k;
    const std::size_t total = len + 1 + k + 8;
    std::vector<std::uint8_t> padded(total, 0);
    for (std::size_t i = 0; i < len; ++i) padded[i] = msg[i];
    padded[len] = 0x80;
    const std::uint64_t bits = static_cast<std::uint64_t>(len) * 8;
    for (int i = 0; i < 8; ++i) padded[total - 1 - i] = static_cast<std::uint8_t>(bits >> (8 * i));
    for (std::size_t off = 0; off < total; off += 64) compress(H, padded.data() + off);
    for (int i = 0; i < 8; ++i) { out[4 * i] = H[i] >> 24; out[4 * i + 1] = H[i] >> 16; out[4 * i + 2] = H[i] >> 8; out[4 * i + 3] = H[i]; }
}
// RFC 2104: H(K XOR opad, H(K XOR ipad, text)), K hashed first when longer than the block size B = 64
static void hmac(const std::uint8_t* key, std::size_t klen, const std::uint8_t* data, std::size_t dlen, std::uint8_t out[32]) {
    std::uint8_t k0[64] = {0};
    if (klen > 64) digest(key, klen, k0); else for (std::size_t i = 0; i < klen; ++i) k0[i] = key[i];
    std::vector<std::uint8_t> inner(64 + dlen), outer(64 + 32);
    for (int i = 0; i < 64; ++i) { inner[i] = k0[i] ^ 0x36; outer[i] = k0[i] ^ 0x5c; }
    for (std::size_t i = 0; i < dlen; ++i) inner[64 + i] = data[i];
    digest(inner.data(), inner.size(), outer.data() + 64);
    digest(outer.data(), outer.size(), out);
}
}  // namespace spec

// ---------------------------------------------------------------- redirect targets (Engine S only): one UF for both compressions
extern "C" void h_uf_transform(Sha256* self, const std::uint8_t* block) {
    std::uint8_t in[96], out[32];
    for (int i = 0; i < 8; ++i) { in[4 * i] = self->state_[i] >> 24; in[4 * i + 1] = self->state_[i] >> 16; in[4 * i + 2] = self->state_[i] >> 8; in[4 * i + 3] = self->state_[i]; }
    for (int i = 0; i < 64; ++i) in[32 + i] = block[i];
    verif_uf("sha256_compress", in, 96, out, 32);
    for (int i = 0; i < 8; ++i) self->state_[i] = (std::uint32_t(out[4 * i]) << 24) | (std::uint32_t(out[4 * i + 1]) << 16) | (std::uint32_t(out[4 * i + 2]) << 8) | out[4 * i + 3];
}
extern "C" void h_uf_spec_compress(std::uint32_t H[8], const std::uint8_t* block) {
    std::uint8_t in[96], out[32];
    for (int i = 0; i < 8; ++i) { in[4 * i] = H[i] >> 24; in[4 * i + 1] = H[i] >> 16; in[4 * i + 2] = H[i] >> 8; in[4 * i + 3] = H[i]; }
    for (int i = 0; i < 64; ++i) in[32 + i] = block[i];
    verif_uf("sha256_compress", in, 96, out, 32);
    for (int i = 0; i < 8; ++i) H[i] = (std::uint32_t(out[4 * i]) << 24) | (std::uint32_t(out[4 * i + 1]) << 16) | (std::uint32_t(out[4 * i + 2]) << 8) | out[4 * i + 3];
}

// ---------------------------------------------------------------- (a) compression function
extern "C" void h_c08_compress(unsigned long) {
    Sha256 h;
    std::uint32_t ref[8];
    for (int i = 0; i < 8; ++i) { h.state_[i] = nondet_u32("state"); ref[i] = h.state_[i]; }
    std::uint8_t block[64]; nondet_bytes(block, 64, "block");
    h.transform(block);
    spec::compress(ref, block);
    for (int i = 0; i < 8; ++i) verif_assert(h.state_[i] == ref[i], "C08: the compression function equals FIPS 180-4 6.2.2 for every state and block");
    verif_reach("compressed");
}
// initial state and known answers (FIPS 180-4 5.3.3; "abc" and the two-block message of FIPS 180-2 appendix B)
extern "C" void h_c08_vectors(unsigned long) {
    Sha256 fresh;
    for (int i = 0; i < 8; ++i) verif_assert(fresh.state_[i] == spec::H0[i], "C08: initial hash value is FIPS 180-4 5.3.3");
    static const std::uint8_t abc_digest[32] = {0xba, 0x78, 0x16, 0xbf, 0x8f, 0x01, 0xcf, 0xea, 0x41, 0x41, 0x40, 0xde, 0x5d, 0xae, 0x22, 0x23, 0xb0, 0x03, 0x61, 0xa3, 0x96, 0x17, 0x7a, 0x9c, 0xb4, 0x10, 0xff, 0x61, 0xf2, 0x00, 0x15, 0xad};
    const std::uint8_t abc[3] = {'a', 'b', 'c'};
    const auto d1 = Sha256::digest(std::span<const std::uint8_t>(abc, 3));
    for (int i = 0; i < 32; ++i) verif_assert(d1[i] == abc_digest[i], "C08: SHA-256(\"abc\") known answer");
    const char* two = "abcdbcdecdefdefgefghfghighijhijkijkljklmklmnlmnomnopnopq";
    static const std::uint8_t two_digest[32] = {0x24, 0x8d, 0x6a, 0x61, 0xd2, 0x06, 0x38, 0xb8, 0xe5, 0xc0, 0x26, 0x93, 0x0c, 0x3e, 0x60, 0x39, 0xa3, 0x3c, 0xe4, 0x59, 0x64, 0xff, 0x21, 0x67, 0xf6, 0xec, 0xed, 0xd4, 0x19, 0xdb, 0x06, 0xc1};
    const auto d2 = Sha256::digest(std::span<const std::uint8_t>(reinterpret_cast<const std::uint8_t*>(two), 56));
    std::uint8_t s2[32]; spec::digest(reinterpret_cast<const std::uint8_t*>(two), 56, s2);
    for (int i = 0; i < 32; ++i) { verif_assert(d2[i] == two_digest[i], "C08: SHA-256 two-block known answer"); verif_assert(s2[i] == two_digest[i], "reference self-check"); }
    verif_reach("vectors");
}
// ---------------------------------------------------------------- (b) padding / buffering: length len, fed as up to three updates
extern "C" void h_c08_padding(unsigned long len, unsigned long three_way) {
    std::vector<std::uint8_t> msg(len);
    if (len) nondet_bytes(msg.data(), len, "msg");
    std::uint64_t s1 = nondet_u64("split1"), s2 = nondet_u64("split2");
    verif_assume(s1 <= s2 && s2 <= len);
    if (!three_way) verif_assume(s2 == len);
    const std::size_t a = static_cast<std::size_t>(verif_concretize(s1, 200)), b = static_cast<std::size_t>(verif_concretize(s2, 200));
    Sha256 h;
    h.update(std::span<const std::uint8_t>(msg.data(), a));
    h.update(std::span<const std::uint8_t>(msg.data() + a, b - a));
    h.update(std::span<const std::uint8_t>(msg.data() + b, len - b));
    const auto got = h.finalize();
    std::uint8_t want[32]; spec::digest(msg.data(), len, want);
    for (int i = 0; i < 32; ++i) verif_assert(got[i] == want[i], "C08: digest equals FIPS 180-4 for every message and every split of incremental updates");
    const auto one = Sha256::digest(std::span<const std::uint8_t>(msg.data(), len));
    for (int i = 0; i < 32; ++i) verif_assert(one[i] == want[i], "C08: one-shot digest equals FIPS 180-4");
    verif_reach("hashed");
}
// ---------------------------------------------------------------- (c) HMAC structure, key length klen (also > 64), data length dlen
extern "C" void h_c08_hmac(unsigned long klen, unsigned long dlen) {
    std::vector<std::uint8_t> key(klen), data(dlen);
    if (klen) nondet_bytes(key.data(), klen, "key");
    if (dlen) nondet_bytes(data.data(), dlen, "data");
    const auto got = HmacSha256::compute(key, data);
    std::uint8_t want[32]; spec::hmac(key.data(), klen, data.data(), dlen, want);
    for (int i = 0; i < 32; ++i) verif_assert(got[i] == want[i], "C08: HMAC-SHA256 equals RFC 2104 for every key (also longer than the block) and message");
    verif_reach("mac");
}
// verify accepts exactly the 32-byte correct tag
extern "C" void h_c08_verify(unsigned long klen, unsigned long dlen, unsigned long maclen) {
    std::vector<std::uint8_t> key(klen), data(dlen), mac(maclen);
    if (klen) nondet_bytes(key.data(), klen, "key");
    if (dlen) nondet_bytes(data.data(), dlen, "data");
    std::uint8_t want[32]; spec::hmac(key.data(), klen, data.data(), dlen, want);
    // candidate tag = correct tag XOR an arbitrary difference (so that a counterexample replays natively, where the tag is the real
    // HMAC and not the solver's interpretation of the abstracted compression function); bytes beyond 32 are arbitrary
    if (maclen) nondet_bytes(mac.data(), maclen, "delta");
    unsigned diff = 0;
    for (std::size_t i = 0; i < maclen && i < 32; ++i) { diff |= mac[i]; mac[i] = static_cast<std::uint8_t>(mac[i] ^ want[i]); }
    const bool ok = HmacSha256::verify(key, data, mac);
    const bool same = maclen == 32 && diff == 0;
    verif_assert(ok == same, "C08: verification accepts exactly the correct 32-byte tag");
    if (ok) verif_reach("accepted"); else verif_reach("rejected");
}
