// Harness unit for the leaf kernels of core/Node.cpp (C02, C19): the real translation unit is included so that the
// anonymous-namespace functions are reachable; only the functions called below are encoded (everything else is unused IR).
#include "verif.h"
#include "src/core/Node.cpp"
using namespace ephemeralnet;
using sec = std::chrono::seconds;
static sec sym_sec(const char* n) { return sec(static_cast<std::int64_t>(nondet_u64(n))); }

extern "C" void h_c02_config(unsigned long) {
    Config c{};
    c.key_rotation_interval = sym_sec("key_rotation"); c.min_manifest_ttl = sym_sec("min_ttl"); c.max_manifest_ttl = sym_sec("max_ttl");
    c.default_chunk_ttl = sym_sec("default_ttl");
    c.announce_pow_difficulty = nondet_u8("announce_pow"); c.handshake_pow_difficulty = nondet_u8("handshake_pow"); c.store_pow_difficulty = nondet_u8("store_pow");
    const Config s = sanitize_config(c);
    verif_assert(sec(1) <= s.min_manifest_ttl && s.min_manifest_ttl <= s.max_manifest_ttl && s.max_manifest_ttl <= sec(24 * 3600), "C02: 1 s <= minimum TTL <= maximum TTL <= 24 h");
    verif_assert(s.min_manifest_ttl <= s.default_chunk_ttl && s.default_chunk_ttl <= s.max_manifest_ttl, "C02: default TTL inside the window");
    verif_assert(sec(5) <= s.key_rotation_interval && s.key_rotation_interval <= sec(3600), "C02: key rotation within [5 s, 1 h]");
    verif_assert(s.announce_pow_difficulty <= 24 && s.handshake_pow_difficulty <= 24 && s.store_pow_difficulty <= 24, "C02: PoW difficulties at most 24 bits");
    // every requested TTL (zero, negative, tiny, huge) is clamped into the sanitised window
    const sec req = sym_sec("requested_ttl");
    const sec eff = clamp_chunk_ttl(req, s.min_manifest_ttl, s.max_manifest_ttl);
    verif_assert(s.min_manifest_ttl <= eff && eff <= s.max_manifest_ttl, "C02: every requested TTL is clamped into [minimum TTL, maximum TTL]");
    if (req >= s.min_manifest_ttl && req <= s.max_manifest_ttl) verif_assert(eff == req, "C02: a TTL inside the window is kept");
    // a received manifest lifetime is refused below the minimum and capped at the maximum
    const auto enf = enforce_manifest_ttl(req, s.min_manifest_ttl, s.max_manifest_ttl);
    if (req < s.min_manifest_ttl) verif_assert(!enf.has_value(), "C02: lifetimes below the minimum TTL are refused");
    if (enf) verif_assert(s.min_manifest_ttl <= *enf && *enf <= s.max_manifest_ttl && *enf <= req, "C02: accepted lifetimes lie in the window and are never extended");
    if (req < s.min_manifest_ttl) verif_reach("requested-below-minimum");
    else if (req > s.max_manifest_ttl) verif_reach("requested-above-maximum");
    else verif_reach("requested-inside-window");
    verif_reach("sanitised");
}
static std::size_t spec_clz(const std::uint8_t* d, std::size_t n) {
    std::size_t z = 0;
    for (std::size_t i = 0; i < n; ++i) for (int b = 7; b >= 0; --b) { if ((d[i] >> b) & 1u) return z; ++z; }
    return z;
}
extern "C" void h_c19_node_counter(unsigned long nz) {
    std::array<std::uint8_t, 32> d{}; nondet_bytes(d.data(), 32, "digest");
    if (nz < 32) verif_assume(d[nz] != 0);
    verif_assert(count_leading_zero_bits(d) == spec_clz(d.data(), 32), "C19: Node leading-zero counter equals the reference for every digest");
    verif_reach("counted");
}
