// Harness unit for protocol/Message.cpp (C13, C15, C16). HmacSha256 is cut at the link seam:
// its two static members are defined here as recording stubs (their own correctness is C08).
#include "verif.h"
#include "src/protocol/Message.cpp"
#include <cstdlib>

using namespace ephemeralnet;
using namespace ephemeralnet::protocol;

namespace {
struct MacCall { const std::uint8_t* key; std::size_t key_n; const std::uint8_t* data; std::size_t data_n; const std::uint8_t* mac; std::size_t mac_n; };
MacCall g_verify_call{}; int g_verify_calls = 0; bool g_verify_result = false;
MacCall g_compute_call{}; int g_compute_calls = 0; std::array<std::uint8_t, 32> g_compute_result{};
}
namespace ephemeralnet::crypto {
std::array<std::uint8_t, HmacSha256::kDigestSize> HmacSha256::compute(std::span<const std::uint8_t> key, std::span<const std::uint8_t> data) {
    g_compute_call = {key.data(), key.size(), data.data(), data.size(), nullptr, 0}; ++g_compute_calls;
    return g_compute_result;
}
bool HmacSha256::verify(std::span<const std::uint8_t> key, std::span<const std::uint8_t> data, std::span<const std::uint8_t> mac) {
    g_verify_call = {key.data(), key.size(), data.data(), data.size(), mac.data(), mac.size()}; ++g_verify_calls;
    return g_verify_result;
}
}

static void sym_id(std::array<std::uint8_t, 32>& id, const char* name) { nondet_bytes(id.data(), id.size(), name); }
static std::string sym_string(std::size_t n, const char* name) {
    std::string s(n, '\0'); if (n) nondet_bytes(s.data(), n, name); return s;
}
static bool ids_equal(const std::array<std::uint8_t, 32>& a, const std::array<std::uint8_t, 32>& b) {
    unsigned diff = 0; for (std::size_t i = 0; i < 32; ++i) diff |= static_cast<unsigned>(a[i] ^ b[i]); return diff == 0;
}
template <class A, class B> static bool bytes_equal(const A& a, const B& b) {
    if (a.size() != b.size()) return false;
    unsigned diff = 0; for (std::size_t i = 0; i < a.size(); ++i) diff |= static_cast<unsigned>(static_cast<std::uint8_t>(a[i]) ^ static_cast<std::uint8_t>(b[i]));
    return diff == 0;
}

// ---------------------------------------------------------------------------------------------- C15
// type: 1..6 ; elen/mlen/alen: string / list lengths (Announce) ; for Chunk elen = data length
extern "C" void h_c15_roundtrip(unsigned long type, unsigned long elen, unsigned long mlen, unsigned long alen) {
    Message m{};
    m.version = nondet_u8("version");
    m.type = static_cast<MessageType>(type);
    const std::uint8_t clamped = m.version < 1 ? 1 : (m.version > 4 ? 4 : m.version);
    switch (type) {
    case 1: {
        AnnouncePayload p{};
        sym_id(p.chunk_id, "chunk_id"); sym_id(p.peer_id, "peer_id");
        p.endpoint = sym_string(elen, "endpoint");
        p.ttl = std::chrono::seconds(nondet_u32("ttl"));
        p.manifest_uri = sym_string(mlen, "manifest_uri");
        p.assigned_shards.resize(alen); if (alen) nondet_bytes(p.assigned_shards.data(), alen, "assigned");
        p.work_nonce = nondet_u64("work_nonce");
        m.payload = p; break; }
    case 2: { RequestPayload p{}; sym_id(p.chunk_id, "chunk_id"); sym_id(p.requester, "requester"); m.payload = p; break; }
    case 3: { ChunkPayload p{}; sym_id(p.chunk_id, "chunk_id"); p.data.resize(elen); if (elen) nondet_bytes(p.data.data(), elen, "data");
              p.ttl = std::chrono::seconds(nondet_u32("ttl")); m.payload = p; break; }
    case 4: { AcknowledgePayload p{}; sym_id(p.chunk_id, "chunk_id"); sym_id(p.peer_id, "peer_id"); p.accepted = nondet_bool("accepted"); m.payload = p; break; }
    case 5: { TransportHandshakePayload p{}; p.public_identity = nondet_u32("public_identity"); p.work_nonce = nondet_u64("work_nonce");
              p.requested_version = nondet_u8("requested_version"); m.payload = p; break; }
    default: { HandshakeAckPayload p{}; p.accepted = nondet_bool("accepted"); p.negotiated_version = nondet_u8("negotiated_version");
              p.responder_public = nondet_u32("responder_public"); m.payload = p; break; }
    }
    const auto wire = encode(m);
    verif_observe("wire_size", wire.size());
    const auto back = decode(std::span<const std::uint8_t>(wire.data(), wire.size()));
    verif_assert(back.has_value(), "C15: decode(encode(m)) yields a message");
    if (!back) return;
    verif_assert(back->version == clamped, "C15: version is the nearest supported version");
    verif_assert(back->type == m.type, "C15: type preserved");
    verif_assert(back->payload.index() == m.payload.index(), "C15: payload alternative preserved");
    if (back->payload.index() != m.payload.index()) return;
    switch (type) {
    case 1: {
        const auto& a = std::get<AnnouncePayload>(m.payload); const auto& b = std::get<AnnouncePayload>(back->payload);
        verif_assert(ids_equal(a.chunk_id, b.chunk_id) && ids_equal(a.peer_id, b.peer_id), "C15: announce ids preserved");
        verif_assert(bytes_equal(a.endpoint, b.endpoint) && bytes_equal(a.manifest_uri, b.manifest_uri), "C15: announce strings preserved");
        verif_assert(bytes_equal(a.assigned_shards, b.assigned_shards), "C15: assigned shards preserved");
        verif_assert(a.ttl == b.ttl, "C15: announce ttl preserved");
        if (clamped >= 3) verif_assert(a.work_nonce == b.work_nonce, "C15: announce PoW nonce carried from version 3 onward");
        break; }
    case 2: { const auto& a = std::get<RequestPayload>(m.payload); const auto& b = std::get<RequestPayload>(back->payload);
        verif_assert(ids_equal(a.chunk_id, b.chunk_id) && ids_equal(a.requester, b.requester), "C15: request preserved"); break; }
    case 3: { const auto& a = std::get<ChunkPayload>(m.payload); const auto& b = std::get<ChunkPayload>(back->payload);
        verif_assert(ids_equal(a.chunk_id, b.chunk_id) && bytes_equal(a.data, b.data) && a.ttl == b.ttl, "C15: chunk preserved"); break; }
    case 4: { const auto& a = std::get<AcknowledgePayload>(m.payload); const auto& b = std::get<AcknowledgePayload>(back->payload);
        verif_assert(ids_equal(a.chunk_id, b.chunk_id) && ids_equal(a.peer_id, b.peer_id) && a.accepted == b.accepted, "C15: acknowledge preserved"); break; }
    case 5: { const auto& a = std::get<TransportHandshakePayload>(m.payload); const auto& b = std::get<TransportHandshakePayload>(back->payload);
        verif_assert(a.public_identity == b.public_identity && a.work_nonce == b.work_nonce && a.requested_version == b.requested_version, "C15: handshake preserved"); break; }
    default: { const auto& a = std::get<HandshakeAckPayload>(m.payload); const auto& b = std::get<HandshakeAckPayload>(back->payload);
        verif_assert(a.accepted == b.accepted && a.negotiated_version == b.negotiated_version && a.responder_public == b.responder_public, "C15: handshake ack preserved"); break; }
    }
    verif_reach("roundtrip-checked");
}

// ---------------------------------------------------------------------------------------------- C16
static void check_prefix(const Message& msg, const std::uint8_t* buf, std::size_t len) {
    const auto re = encode(msg);
    verif_assert(re.size() <= len, "C16: re-encoding is not longer than the input");
    if (re.size() > len) return;
    unsigned diff = 0;
    for (std::size_t i = 0; i < re.size(); ++i) diff |= static_cast<unsigned>(re[i] ^ buf[i]);
    verif_assert(diff == 0, "C16: re-encoding the decoded message reproduces a prefix of the input");
}
extern "C" void h_c16_decode(unsigned long len, unsigned long forced_type) {
    auto* buf = static_cast<std::uint8_t*>(std::malloc(len ? len : 1));   // exact-size heap object: any overrun is out of bounds
    if (len) nondet_bytes(buf, len, "buf");
    if (forced_type && len >= 2) verif_assume(buf[1] == forced_type);
    std::optional<Message> msg;
    try {
        msg = decode(std::span<const std::uint8_t>(buf, len));
    } catch (...) {
        verif_assert(false, "C16: decode threw an exception");
    }
    if (msg) { verif_reach("accepted"); check_prefix(*msg, buf, len); }
    else verif_reach("rejected");
    std::free(buf);
}
extern "C" void h_c16_decode_signed(unsigned long len, unsigned long forced_type) {
    auto* buf = static_cast<std::uint8_t*>(std::malloc(len ? len : 1));
    if (len) nondet_bytes(buf, len, "buf");
    std::uint8_t key[32]; nondet_bytes(key, 32, "key");
    if (forced_type && len >= 2) verif_assume(buf[1] == forced_type);
    g_verify_result = nondet_bool("mac_ok");
    std::optional<Message> msg;
    try {
        msg = decode_signed(std::span<const std::uint8_t>(buf, len), std::span<const std::uint8_t>(key, 32));
    } catch (...) {
        verif_assert(false, "C16: decode_signed threw an exception");
    }
    if (msg) { verif_reach("accepted"); check_prefix(*msg, buf, len); }
    else verif_reach("rejected");
    std::free(buf);
}

// ---------------------------------------------------------------------------------------------- C13
extern "C" void h_c13_decode_signed(unsigned long len) {
    auto* buf = static_cast<std::uint8_t*>(std::malloc(len ? len : 1));
    if (len) nondet_bytes(buf, len, "buf");
    std::uint8_t key[32]; nondet_bytes(key, 32, "key");
    g_verify_result = nondet_bool("mac_ok"); g_verify_calls = 0;
    const auto msg = decode_signed(std::span<const std::uint8_t>(buf, len), std::span<const std::uint8_t>(key, 32));
    if (len < 32) {
        verif_assert(!msg.has_value(), "C13: shorter than a MAC is rejected");
        verif_assert(g_verify_calls == 0, "C13: no MAC check on a too-short buffer");
        verif_reach("short");
    } else {
        verif_assert(g_verify_calls == 1, "C13: MAC verified exactly once");
        verif_assert(g_verify_call.key == key && g_verify_call.key_n == 32, "C13: MAC uses the session key");
        verif_assert(g_verify_call.data == buf && g_verify_call.data_n == len - 32, "C13: MAC covers all preceding bytes");
        verif_assert(g_verify_call.mac == buf + (len - 32) && g_verify_call.mac_n == 32, "C13: MAC is the last 32 bytes");
        const auto plain = decode(std::span<const std::uint8_t>(buf, len - 32));
        verif_assert(msg.has_value() == (g_verify_result && plain.has_value()), "C13: accepted exactly when the MAC verifies and the prefix decodes");
        if (msg && plain) {
            const auto a = encode(*msg), b = encode(*plain);
            verif_assert(bytes_equal(a, b) && msg->version == plain->version && msg->type == plain->type, "C13: returns the decoded prefix unchanged");
            verif_reach("accepted");
        } else if (!g_verify_result) verif_reach("mac-rejected");
    }
    std::free(buf);
}
extern "C" void h_c13_encode_signed(unsigned long type, unsigned long elen) {
    Message m{}; m.version = nondet_u8("version"); m.type = static_cast<MessageType>(type);
    if (type == 3) { ChunkPayload p{}; sym_id(p.chunk_id, "chunk_id"); p.data.resize(elen); if (elen) nondet_bytes(p.data.data(), elen, "data"); p.ttl = std::chrono::seconds(nondet_u32("ttl")); m.payload = p; }
    else if (type == 2) { RequestPayload p{}; sym_id(p.chunk_id, "chunk_id"); sym_id(p.requester, "requester"); m.payload = p; }
    else { TransportHandshakePayload p{}; p.public_identity = nondet_u32("pi"); p.work_nonce = nondet_u64("wn"); p.requested_version = nondet_u8("rv"); m.payload = p; }
    std::uint8_t key[32]; nondet_bytes(key, 32, "key");
    nondet_bytes(g_compute_result.data(), 32, "mac"); g_compute_calls = 0;
    const auto plain = encode(m);
    const auto wire = encode_signed(m, std::span<const std::uint8_t>(key, 32));
    verif_assert(g_compute_calls == 1 && g_compute_call.key == key && g_compute_call.key_n == 32, "C13: signing uses the session key once");
    verif_assert(g_compute_call.data_n == plain.size(), "C13: MAC computed over the whole encoding");
    verif_assert(wire.size() == plain.size() + 32, "C13: signed = encoding + 32-byte MAC");
    if (wire.size() != plain.size() + 32) return;
    unsigned diff = 0;
    for (std::size_t i = 0; i < plain.size(); ++i) diff |= static_cast<unsigned>(wire[i] ^ plain[i]);
    for (std::size_t i = 0; i < 32; ++i) diff |= static_cast<unsigned>(wire[plain.size() + i] ^ g_compute_result[i]);
    verif_assert(diff == 0, "C13: signed bytes are encode(m) followed by the MAC");
    verif_reach("signed");
}
