// Harness unit for network/KeyExchange.cpp + network/KeyManager.cpp + the handshake material helper of core/Node.cpp (C12, C39).
// SHA-256 / HMAC are uninterpreted functions in Engine S (their correctness is C08) and the real code in the native replay.
#include "stdmodels.h"
#define private public
#include "ephemeralnet/network/KeyExchange.hpp"
#include "ephemeralnet/network/KeyManager.hpp"
#undef private
#include "src/network/KeyExchange.cpp"
#include "src/network/KeyManager.cpp"
#ifdef VERIF_NATIVE
#include "src/crypto/Sha256.cpp"
#include "src/crypto/HmacSha256.cpp"
#else
#include "ephemeralnet/crypto/Sha256.hpp"
#include "ephemeralnet/crypto/HmacSha256.hpp"
namespace ephemeralnet::crypto {
std::array<std::uint8_t, 32> Sha256::digest(std::span<const std::uint8_t> data) {
    std::array<std::uint8_t, 32> out{}; std::uint8_t in[8] = {0};
    if (data.size() > 8) verif_abort();
    for (std::size_t i = 0; i < data.size(); ++i) in[i] = data[i];
    verif_uf("sha256_short", in, 8, out.data(), 32);
    return out;
}
std::array<std::uint8_t, 32> HmacSha256::compute(std::span<const std::uint8_t> key, std::span<const std::uint8_t> data) {
    std::array<std::uint8_t, 32> out{}; std::uint8_t in[48] = {0};
    if (key.size() != 32 || data.size() > 16) verif_abort();
    for (std::size_t i = 0; i < 32; ++i) in[i] = key[i];
    for (std::size_t i = 0; i < data.size(); ++i) in[32 + i] = data[i];
    verif_uf(data.size() == 8 ? "hmac_k32_d8" : "hmac_k32_d16", in, 48, out.data(), 32);
    return out;
}
}
#endif
// the handshake material helper lives in an anonymous namespace of core/Node.cpp (a 2800-line unit that drags in the whole daemon);
// it is lifted textually from the current source at build time by the driver (see props/C12.py: define NODE_MATERIAL_SNIPPET)
#include <algorithm>
namespace node_snippet {
#include NODE_MATERIAL_SNIPPET
}
using namespace ephemeralnet;
using namespace ephemeralnet::network;

extern "C" void h_c12_validate(unsigned long) {
    const std::uint32_t c = nondet_u32("candidate");
    const bool ok = KeyExchange::validate_public(c);
    verif_assert(ok == (c > 1u && c < 2147483647u), "C12: public keys are accepted exactly in the open interval (1, p)");
    if (ok) verif_reach("accepted"); else verif_reach("refused");
}
extern "C" void h_c12_material(unsigned long) {
    const std::uint32_t a = nondet_u32("local_public"), b = nondet_u32("remote_public"), c = nondet_u32("other_local"), d = nondet_u32("other_remote");
    const auto m1 = node_snippet::make_handshake_material(a, b), m2 = node_snippet::make_handshake_material(b, a), m3 = node_snippet::make_handshake_material(c, d);
    verif_assert(m1 == m2, "C12: both ends feed the same key material (order of the two public keys does not matter)");
    const bool same_pair = (a == c && b == d) || (a == d && b == c);
    if (!same_pair) { verif_assert(m1 != m3, "C12: the key material depends on both public keys (different pairs give different material)"); verif_reach("distinct"); }
    else verif_reach("same");
}
// Diffie-Hellman agreement for every pair of private scalars (a, b) with a = a_hi * 2^hi_shift + a_lo etc.: low parts enumerated.
extern "C" void h_c12_dh(unsigned long bits, unsigned long hi_shift) {
    std::uint32_t a = nondet_u32("a"), b = nondet_u32("b");
    verif_assume(a < (1u << bits) && b < (1u << bits));
    a = static_cast<std::uint32_t>(verif_concretize(a, 1u << bits)); b = static_cast<std::uint32_t>(verif_concretize(b, 1u << bits));
    if (hi_shift) { a = (a << hi_shift) | 1u; b = (b << (hi_shift > 3 ? hi_shift - 3 : 0)) | 5u; }
    const std::uint32_t pa = KeyExchange::compute_public(a), pb = KeyExchange::compute_public(b);
    const auto ka = KeyExchange::derive_shared_secret(a, pb), kb = KeyExchange::derive_shared_secret(b, pa);
    verif_assert(ka.bytes == kb.bytes, "C12: Diffie-Hellman agreement: derive(a, pub(b)) == derive(b, pub(a))");
    // independent reference for the public key: g^a mod p by repeated multiplication for small a
    if (!hi_shift) { std::uint64_t r = 1; for (std::uint32_t i = 0; i < a; ++i) r = (r * 5u) % 2147483647u; verif_assert(pa == r, "C12: public key is g^a mod p"); }
    verif_reach("agreed");
}
// session key: both ends register the session with their own view (local/remote public swapped) and must hold the same key = HMAC(secret, material)
extern "C" void h_c12_session_key(unsigned long) {
    crypto::Key secret; nondet_bytes(secret.bytes.data(), 32, "shared_secret");
    const std::uint32_t pub_a = nondet_u32("public_a"), pub_b = nondet_u32("public_b");
    PeerId ida{}, idb{}; ida[0] = 1; idb[0] = 2;
    KeyManager at_a, at_b;
    const auto ma = node_snippet::make_handshake_material(pub_a, pub_b), mb = node_snippet::make_handshake_material(pub_b, pub_a);
    at_a.register_session_with_material(idb, secret, ma, std::chrono::steady_clock::time_point(std::chrono::nanoseconds(nondet_u32("ref_a"))));
    at_b.register_session_with_material(ida, secret, mb, std::chrono::steady_clock::time_point(std::chrono::nanoseconds(nondet_u32("ref_b"))));
    const auto ka = at_a.current_key(idb), kb = at_b.current_key(ida);
    verif_assert(ka.has_value() && kb.has_value(), "C12: both ends hold a session key");
    if (ka && kb) verif_assert(*ka == *kb, "C12: both ends hold the same 32-byte session key");
    const auto direct = crypto::HmacSha256::compute(std::span<const std::uint8_t>(secret.bytes), std::span<const std::uint8_t>(ma));
    if (ka) verif_assert(*ka == direct, "C12: the session key is HMAC(shared secret, material of both public keys)");
    verif_reach("keyed");
}
// a second accepted handshake (same identities) after one end rotated: both ends must again hold the handshake-derived key
extern "C" void h_c12_rehandshake(unsigned long) {
    crypto::Key secret; nondet_bytes(secret.bytes.data(), 32, "shared_secret");
    const std::uint32_t pub_a = nondet_u32("public_a"), pub_b = nondet_u32("public_b");
    PeerId ida{}, idb{}; ida[0] = 1; idb[0] = 2;
    const std::uint16_t interval = nondet_u16("rotation_interval_s"); verif_assume(interval >= 5 && interval <= 3600);
    KeyManager at_a{std::chrono::seconds(interval)}, at_b{std::chrono::seconds(interval)};
    const auto ma = node_snippet::make_handshake_material(pub_a, pub_b), mb = node_snippet::make_handshake_material(pub_b, pub_a);
    const long long kS = 1000000000LL; long long ta = static_cast<long long>(nondet_u16("clock_a_s")) * kS, tb = static_cast<long long>(nondet_u16("clock_b_s")) * kS;
    auto at = [](long long ns) { return std::chrono::steady_clock::time_point(std::chrono::nanoseconds(ns)); };
    at_a.register_session_with_material(idb, secret, ma, at(ta)); at_b.register_session_with_material(ida, secret, mb, at(tb));
    ta += static_cast<long long>(nondet_u16("advance_a_s") & 0x1FFF) * kS;
    const bool rotated = at_a.rotate_if_needed(idb, at(ta)).has_value();
    ta += static_cast<long long>(nondet_u8("gap_s")) * kS; tb += static_cast<long long>(nondet_u16("advance_b_s") & 0x1FFF) * kS;
    at_a.register_session_with_material(idb, secret, ma, at(ta)); at_b.register_session_with_material(ida, secret, mb, at(tb));      // the tail of perform_handshake on both ends
    const auto ka = at_a.current_key(idb), kb = at_b.current_key(ida);
    verif_assert(ka.has_value() && kb.has_value() && *ka == *kb, "C12: after each accepted mutual handshake both ends hold the same session key");
    if (rotated) verif_reach("rotated-between"); else verif_reach("not-rotated");
}
// ---------------------------------------------------------------- C39: two ends of one session, periodic ticks on each side
extern "C" void h_c39_rotation(unsigned long ticks_a, unsigned long ticks_b) {
    crypto::Key secret; nondet_bytes(secret.bytes.data(), 32, "shared_secret");
    const std::uint16_t interval = nondet_u16("rotation_interval_s");
    verif_assume(interval >= 5 && interval <= 3600);
    KeyManager at_a{std::chrono::seconds(interval)}, at_b{std::chrono::seconds(interval)};
    PeerId ida{}, idb{}; ida[0] = 1; idb[0] = 2;
    std::array<std::uint8_t, 8> material{}; nondet_bytes(material.data(), 8, "material");
    const long long kMs = 1000000000LL;   // clock resolution of the harness: whole seconds (origins < 65536 s, advances < 8192 s)
    // each end registered the session when ITS handshake completed (local monotonic clocks, arbitrary offsets)
    long long ta = static_cast<long long>(nondet_u16("clock_a_s")) * kMs, tb = static_cast<long long>(nondet_u16("clock_b_s")) * kMs;
    at_a.register_session_with_material(idb, secret, material, std::chrono::steady_clock::time_point(std::chrono::nanoseconds(ta)));
    at_b.register_session_with_material(ida, secret, material, std::chrono::steady_clock::time_point(std::chrono::nanoseconds(tb)));
    unsigned rot_a = 0, rot_b = 0; bool same_instants = true;
    long long last_a = 0, last_b = 0;
    for (unsigned long i = 0; i < ticks_a || i < ticks_b; ++i) {
        if (i < ticks_a) { ta += static_cast<long long>(nondet_u16("advance_a_s") & 0x1FFF) * kMs; if (at_a.rotate_if_needed(idb, std::chrono::steady_clock::time_point(std::chrono::nanoseconds(ta)))) { ++rot_a; last_a = ta; } }
        if (i < ticks_b) { tb += static_cast<long long>(nondet_u16("advance_b_s") & 0x1FFF) * kMs; if (at_b.rotate_if_needed(ida, std::chrono::steady_clock::time_point(std::chrono::nanoseconds(tb)))) { ++rot_b; last_b = tb; } }
        if (rot_a != rot_b || last_a != last_b) same_instants = false;
    }
    const auto ka = at_a.current_key(idb), kb = at_b.current_key(ida);
    // no teardown/re-key exists in KeyManager, so "the session stays open": the two ends must hold the same key
    // any rotation mixes that end's LOCAL steady-clock reading into the key (the two ends' clocks are unrelated machines' clocks)
    const bool diverging_schedule = rot_a != 0 || rot_b != 0;
    (void)same_instants; (void)last_a; (void)last_b;
    if (verif_known("C39-rotation-mixes-local-clock", diverging_schedule)) verif_reach("known-region");
    verif_assert(ka.has_value() && kb.has_value() && *ka == *kb, "C39: after any ticks both ends of the open session hold the same key");
    verif_reach("compared");
}
// handshake, optional re-handshake (both ends register the session again with the same secret and material, as a reconnecting peer with a
// stable identity does), then one tick per end. A tick's timestamp may be up to 3 s OLDER than the registration (Node::tick reads the clock
// first and rotates last, a handshake can complete in between). The known finding covers rotations that were DUE on the rotating end
// (at least the interval since that end's latest registration); if no due rotation happened the two ends must hold the same key.
extern "C" void h_c39_schedule(unsigned long rehandshake) {
    crypto::Key secret; nondet_bytes(secret.bytes.data(), 32, "shared_secret");
    const std::uint16_t interval = nondet_u16("rotation_interval_s");
    verif_assume(interval >= 5 && interval <= 3600);
    KeyManager at_a{std::chrono::seconds(interval)}, at_b{std::chrono::seconds(interval)};
    PeerId ida{}, idb{}; ida[0] = 1; idb[0] = 2;
    std::array<std::uint8_t, 8> material{}; nondet_bytes(material.data(), 8, "material");
    const long long kS = 1000000000LL;
    long long ta = (10 + static_cast<long long>(nondet_u16("clock_a_s"))) * kS, tb = (10 + static_cast<long long>(nondet_u16("clock_b_s"))) * kS;
    auto tp = [](long long ns) { return std::chrono::steady_clock::time_point(std::chrono::nanoseconds(ns)); };
    at_a.register_session_with_material(idb, secret, material, tp(ta));
    at_b.register_session_with_material(ida, secret, material, tp(tb));
    if (rehandshake) {
        ta += static_cast<long long>(nondet_u16("rehandshake_after_a_s") & 0x1FFF) * kS; tb += static_cast<long long>(nondet_u16("rehandshake_after_b_s") & 0x1FFF) * kS;
        at_a.register_session_with_material(idb, secret, material, tp(ta));
        at_b.register_session_with_material(ida, secret, material, tp(tb));
    }
    const long long tick_a = ta - 3 * kS + static_cast<long long>(nondet_u16("tick_a_after_s_minus_3") & 0x1FFF) * kS;
    const long long tick_b = tb - 3 * kS + static_cast<long long>(nondet_u16("tick_b_after_s_minus_3") & 0x1FFF) * kS;
    const bool rot_a = at_a.rotate_if_needed(idb, tp(tick_a)).has_value();
    const bool rot_b = at_b.rotate_if_needed(ida, tp(tick_b)).has_value();
    const bool due_a = tick_a - ta >= static_cast<long long>(interval) * kS, due_b = tick_b - tb >= static_cast<long long>(interval) * kS;
    const auto ka = at_a.current_key(idb), kb = at_b.current_key(ida);
    if (verif_known("C39-rotation-mixes-local-clock", (rot_a && due_a) || (rot_b && due_b))) verif_reach("known-region");
    verif_assert(ka.has_value() && kb.has_value() && *ka == *kb, "C39: while no rotation is due since the latest (re-)handshake both ends of the open session hold the same key, whatever the tick timing");
    verif_reach("compared");
}
