// Harness unit for persisted chunk files (C04): the real ChunkStore (constructor, put, get_record, sweep_expired, persist_chunk_to_disk,
// wipe_persisted_chunk) with persistence on, over a MODEL DISK kept by the harness (path -> present / length / first byte).
// In the engine the operating-system primitives are the model: std::ofstream is a source-level class writing to the model disk whose
// open, write (short write of a prefix) and flush may each fail; std::filesystem::status (behind exists()) reads the model disk;
// ensure_storage_directory, chunk_path_for_key and secure_wipe_file (directory creation, path building, overwrite passes + remove)
// are redirected to harness functions. Natively the real primitives run against a scratch directory.
#include "stdmodels.h"
#include <fstream>
#include <filesystem>
#define private public
#include "ephemeralnet/storage/ChunkStore.hpp"
#undef private
#include <map>
#include <cstdlib>
namespace {
struct ModelFile { bool present = false; std::uint8_t b0 = 0; std::size_t len = 0; unsigned wipes = 0; };
ModelFile g_disk[2];
int slot_for_key(const std::string& key) { return key[0] == '0' ? 0 : 1; }      // make_id(0) starts with byte 0x0A -> "0a..", make_id(1) with 0xB0 -> "b0.."
constexpr long long kNs = 1000000000LL;
ephemeralnet::ChunkId make_id(int which) { ephemeralnet::ChunkId id{}; for (std::size_t i = 0; i < 32; ++i) id[i] = static_cast<std::uint8_t>(which ? 0xB0 + i : 0x0A + 3 * i); return id; }
}
#ifndef VERIF_NATIVE
namespace verif_io {
// the output stream of persist_chunk_to_disk: opening creates / truncates the file; open, write and flush may fail; a failing write may
// have put a prefix of the data on the disk already
struct ChunkOut {
    int slot; bool ok;
    ChunkOut(const std::filesystem::path& p, std::ios::openmode) : slot(slot_for_key(p.native())), ok(!nondet_bool("open_fails")) { if (ok) { g_disk[slot].present = true; g_disk[slot].len = 0; g_disk[slot].b0 = 0; } }
    bool operator!() const { return !ok; }
    explicit operator bool() const { return ok; }
    ChunkOut& write(const char* p, std::streamsize n) {
        if (!ok) return *this;
        std::size_t k = static_cast<std::size_t>(n);
        if (nondet_bool("write_fails")) { ok = false; const std::uint8_t part = nondet_u8("bytes_written_before_failure"); verif_assume(part < k || k == 0); k = k ? verif_concretize(part, 4) : 0; }
        g_disk[slot].len = k; g_disk[slot].b0 = k ? static_cast<std::uint8_t>(p[0]) : 0;
        return *this;
    }
    ChunkOut& flush() { if (ok && nondet_bool("flush_fails")) ok = false; return *this; }
};
}
namespace std { using verif_chunk_out_alias = verif_io::ChunkOut; }
#define ofstream verif_chunk_out_alias
#endif
#include "src/core/ChunkStore.cpp"
#ifndef VERIF_NATIVE
#undef ofstream
#endif
using namespace ephemeralnet;
#ifndef VERIF_NATIVE
extern "C" void h_path_split_stub(std::filesystem::path*) {}
extern "C" bool h_ensure_dir(ChunkStore*) { return true; }
extern "C" void h_chunk_path(std::filesystem::path* out, const ChunkStore*, const std::string* key) { new (out) std::filesystem::path(*key); }
extern "C" std::filesystem::file_status h_fs_status(const std::filesystem::path* p) {
    return std::filesystem::file_status(g_disk[slot_for_key(p->native())].present ? std::filesystem::file_type::regular : std::filesystem::file_type::not_found);
}
extern "C" bool h_wipe(const ChunkStore*, const std::filesystem::path* path) {
    ModelFile& f = g_disk[slot_for_key(path->native())];
    if (f.present) { f.present = false; ++f.wipes; }
    return true;
}
#endif
extern "C" void h_c04_history(unsigned long k, unsigned long seq) {
    Config cfg{}; cfg.storage_persistent_enabled = true; cfg.storage_wipe_on_expiry = true; cfg.storage_directory = "verif_store";
    cfg.default_chunk_ttl = std::chrono::seconds(5);
    g_disk[0] = ModelFile{}; g_disk[1] = ModelFile{};
    ChunkStore store(cfg);
    struct { bool present = false; long long deadline = 0; std::uint8_t b0 = 0; bool persisted = false; } o[2];
    verif_env::start_clock();
    for (unsigned long step = 0; step < k; ++step) {
        verif_env::advance_clock();
        const long long now = verif_env::g_steady_ns;
        const unsigned op = static_cast<unsigned>(seq % 3); seq /= 3;
        const bool which = nondet_bool("which"); if (step == 0) verif_assume(!which);
        const int w = verif_concretize(which, 2) ? 1 : 0;
        if (op == 0) {
            const std::uint8_t ttl = (nondet_u8("ttl_s") & 15) + 1; const std::uint8_t b0 = nondet_u8("b0");
            store.put(make_id(w), ChunkData{b0, 7}, std::chrono::seconds(ttl));
            o[w].present = true; o[w].deadline = now + static_cast<long long>(ttl) * kNs; o[w].b0 = b0;
            verif_reach("put");
        } else if (op == 1) { (void)store.get_record(make_id(w)); verif_reach("lookup"); }
        else { (void)store.sweep_expired(); for (int j = 0; j < 2; ++j) if (o[j].present && now >= o[j].deadline) o[j].present = false; verif_reach("sweep"); }
#ifndef VERIF_NATIVE
        for (int j = 0; j < 2; ++j) {
            if (g_disk[j].present) {
                verif_assert(o[j].present, "C04: a chunk file exists only for a chunk that was stored and not yet cleaned up");
                verif_assert(g_disk[j].b0 == o[j].b0 && g_disk[j].len == 2, "C04: the file holds exactly the stored bytes");
            }
            if (op == 2 && !(o[j].present)) verif_assert(!g_disk[j].present, "C04: once a chunk has expired its file is wiped and removed no later than the next cleanup");
        }
#endif
    }
}
// restart: an earlier instance stored a chunk; a new instance on the same directory must remove the file once the deadline has passed
extern "C" void h_c04_restart(unsigned long) {
    Config cfg{}; cfg.storage_persistent_enabled = true; cfg.storage_wipe_on_expiry = true; cfg.storage_directory = "verif_store";
#ifdef VERIF_NATIVE
    // real file system: a scratch directory under the driver's work dir (removed with it)
    const char* wd = std::getenv("VERIF_WORK");
    cfg.storage_directory = std::string(wd ? wd : ".") + "/verif_store_restart";
    std::filesystem::remove_all(cfg.storage_directory);
#endif
    g_disk[0] = ModelFile{}; g_disk[1] = ModelFile{};
    verif_env::start_clock();
    bool stored_on_disk = false;
    const std::string file = cfg.storage_directory + "/" + chunk_id_to_string(make_id(0)) + ".chunk";
    {
        ChunkStore first(cfg);
        first.put(make_id(0), ChunkData{9, 7}, std::chrono::seconds(3));
#ifdef VERIF_NATIVE
        stored_on_disk = std::filesystem::exists(file);
#else
        stored_on_disk = g_disk[0].present;
#endif
    }   // the daemon stops (or crashes) here: the instance and its in-memory records are gone, the directory is not
    ChunkStore second(cfg);
    verif_env::g_steady_ns += 10 * kNs;                                 // well past the 3 s deadline
    (void)second.sweep_expired();
    (void)second.get_record(make_id(0));
    if (stored_on_disk) verif_reach("file-written");
#ifdef VERIF_NATIVE
    const bool leftover = std::filesystem::exists(file);
#else
    const bool leftover = g_disk[0].present;
#endif
    (void)verif_known("C04-files-of-earlier-instance-never-reclaimed", stored_on_disk);     // region: an earlier instance left a file
    verif_assert(!leftover, "C04: a file written by an earlier daemon instance is removed once the chunk has expired");
    verif_reach("restarted");
#ifdef VERIF_NATIVE
    std::filesystem::remove_all(cfg.storage_directory);
#endif
}
