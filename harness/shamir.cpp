// Harness unit for crypto/Shamir.cpp (C10). std::random_device is cut at its three out-of-line members, defined here:
// the polynomial coefficients become solver variables for one secret byte position at a time (the others are concrete),
// because interpolate() branches on every share byte and 32 symbolic positions at once would be 2^(32 t) paths.
#include "verif.h"
#include "src/crypto/Shamir.cpp"
#include <cstdlib>
namespace { unsigned long g_rd_calls = 0, g_rd_lo = 0, g_rd_hi = 0; bool g_rd_small = false; }
void std::random_device::_M_init(const std::string&) {}
void std::random_device::_M_fini() {}
std::random_device::result_type std::random_device::_M_getval() {
    const unsigned long k = g_rd_calls++;
    if (k >= g_rd_lo && k < g_rd_hi && g_rd_small) {      // every octet of the draw is 0 or 1 (20 free bits for 5 draws: cheap for the solver, any octet may be the one an implementation uses)
        unsigned v = 0; for (int b = 0; b < 4; ++b) v |= static_cast<unsigned>(nondet_bool("draw_octet_bit")) << (8 * b);
        return v;
    }
    if (k >= g_rd_lo && k < g_rd_hi) return nondet_u32("coeff");
    return 0x9E3779B9u * static_cast<unsigned>(k + 1);
}
using namespace ephemeralnet::crypto;

static std::uint8_t spec_mul(std::uint8_t a, std::uint8_t b) {   // carry-less product reduced by x^8+x^4+x^3+x^2+1 (0x11D)
    unsigned r = 0, x = a;
    for (int i = 0; i < 8; ++i) { if ((b >> i) & 1u) r ^= x; x <<= 1; if (x & 0x100u) x ^= 0x11Du; }
    return static_cast<std::uint8_t>(r);
}
// The field kernels are internal helpers (anonymous namespace). They are checked when they exist with this shape; a refactor that
// removes or renames them leaves the observable-level jobs (combine-spec, round trip) to decide the arithmetic.
template <class... A> static bool field_kernels_present(A... a) { return requires { gf_mul(a...); gf_div(a...); build_exp_table(); }; }
template <class T> static void field_job(T a, T b) {
    if constexpr (requires { gf_mul(a, b, build_exp_table(), build_log_table(build_exp_table())); gf_div(a, b, build_exp_table(), build_log_table(build_exp_table())); gf_add(a, b); }) {
        static const auto exp = build_exp_table(); static const auto log = build_log_table(exp);
        const std::uint8_t m = gf_mul(a, b, exp, log);
        verif_assert(m == spec_mul(a, b), "C10: gf_mul is multiplication in GF(2^8) mod 0x11D");
        verif_assert(gf_add(a, b) == static_cast<std::uint8_t>(a ^ b), "C10: gf_add is XOR");
        if (b != 0) {
            const std::uint8_t q = gf_div(a, b, exp, log);
            verif_assert(spec_mul(q, b) == a, "C10: gf_div is the inverse of gf_mul");
            verif_reach("div");
        } else {
            bool threw = false;
            try { (void)gf_div(a, b, exp, log); } catch (const std::invalid_argument&) { threw = true; }
            verif_assert(threw, "C10: division by zero is an invalid-argument error");
            verif_reach("div0");
        }
    } else {
        verif_note("field kernels gf_mul/gf_div not present with the expected signature: decided at the combine/split level only");
        verif_reach("div"); verif_reach("div0");
    }
}
extern "C" void h_c10_field(unsigned long) {
    const std::uint8_t a = nondet_u8("a"), b = nondet_u8("b");
    field_job<std::uint8_t>(a, b);
}
// Observable-level arithmetic check: combine() on t shares with symbolic distinct non-zero indices equals Lagrange interpolation at 0
// over GF(2^8)/0x11D computed by a bitwise reference. Byte position 0 of every share value is symbolic, the other positions are zero.
// index sets: 0 = 1..9, 1 = {1,2,3,8,9,16,128,254,255} (small/large mixes), 2 = 247..255. ordered != 0: every ordered tuple, else increasing tuples.
// Share number `sympos` has a symbolic value byte, the others fixed non-zero bytes (the result is GF(2)-linear in each value, so one
// symbolic value at a time exercises each Lagrange basis factor for all 256 multiplicands).
extern "C" void h_c10_combine_spec(unsigned long t, unsigned long set_id, unsigned long sympos, unsigned long ordered) {
    static const std::uint8_t kSets[3][9] = {{1, 2, 3, 4, 5, 6, 7, 8, 9}, {1, 2, 3, 8, 9, 16, 128, 254, 255}, {247, 248, 249, 250, 251, 252, 253, 254, 255}};
    std::vector<ShamirShare> shares(t);
    std::uint8_t pos[8];
    for (std::size_t i = 0; i < t; ++i) {
        std::uint8_t p = nondet_u8("index_pos");
        verif_assume(p < 9);
        for (std::size_t j = 0; j < i; ++j) verif_assume(ordered ? p != pos[j] : p > pos[j]);
        pos[i] = static_cast<std::uint8_t>(verif_concretize(p, 16));     // every index combination is enumerated (forks)
        shares[i].index = kSets[set_id][pos[i]];
        shares[i].value.fill(0);
        shares[i].value[0] = i == sympos ? nondet_u8("value") : static_cast<std::uint8_t>(0x53 + 0x11 * i);
    }
    const auto got = Shamir::combine(shares, static_cast<std::uint8_t>(t));
    // cross-multiplied Lagrange identity (no inversion needed): got * prod_i D_i == sum_i v_i * N_i * prod_{k != i} D_k,
    // N_i = prod_{j != i} x_j, D_i = prod_{j != i} (x_j ^ x_i); all D_i are non-zero, and a field has no zero divisors.
    std::uint8_t N[8], D[8], alld = 1;
    for (std::size_t i = 0; i < t; ++i) {
        N[i] = 1; D[i] = 1;
        for (std::size_t j = 0; j < t; ++j) if (j != i) { N[i] = spec_mul(N[i], shares[j].index); D[i] = spec_mul(D[i], static_cast<std::uint8_t>(shares[j].index ^ shares[i].index)); }
        alld = spec_mul(alld, D[i]);
    }
    std::uint8_t rhs = 0;
    for (std::size_t i = 0; i < t; ++i) {
        std::uint8_t term = spec_mul(shares[i].value[0], N[i]);
        for (std::size_t k = 0; k < t; ++k) if (k != i) term = spec_mul(term, D[k]);
        rhs ^= term;
    }
    const std::uint8_t lhs = spec_mul(got[0], alld);
    const bool want_ok = lhs == rhs;
    verif_assert(want_ok, "C10: combine is Lagrange interpolation at zero over GF(2^8) for every set of distinct non-zero indices");
    for (std::size_t b = 1; b < 32; ++b) verif_assert(got[b] == 0, "C10: byte positions are independent");
    verif_reach("interpolated");
}
// split with threshold t, n shares; position `pos` of the secret and its coefficients are symbolic.
// Any t shares in any order (symbolic selection, enumerated) must reconstruct the secret.
extern "C" void h_c10_roundtrip(unsigned long t, unsigned long n, unsigned long pos) {
    std::array<std::uint8_t, 32> secret{};
    for (std::size_t i = 0; i < 32; ++i) secret[i] = static_cast<std::uint8_t>(0x5A + 7 * i);
    secret[pos] = nondet_u8("secret");
    g_rd_calls = 0; g_rd_lo = pos * (t - 1); g_rd_hi = (pos + 1) * (t - 1);
    const auto shares = Shamir::split(secret, static_cast<std::uint8_t>(t), static_cast<std::uint8_t>(n));
    verif_assert(shares.size() == n, "C10: split yields n shares");
    if (shares.size() != n) return;
    bool seen[256] = {false};
    for (const auto& s : shares) {
        verif_assert(s.index != 0 && !seen[s.index], "C10: share indices are distinct and non-zero");
        seen[s.index] = true;
    }
    if (t <= 4 && n <= 6) {
        std::vector<ShamirShare> pick;
        bool used[8] = {false};
        for (unsigned long k = 0; k < t; ++k) {
            std::uint8_t c = nondet_u8("choice");
            verif_assume(c < n);
            const auto ci = static_cast<std::size_t>(verif_concretize(c, 8));
            verif_assume(!used[ci]); used[ci] = true;
            pick.push_back(shares[ci]);
        }
        const auto back = Shamir::combine(pick, static_cast<std::uint8_t>(t));
        for (std::size_t i = 0; i < 32; ++i) verif_assert(back[i] == secret[i], "C10: any t distinct shares, in any order, reconstruct the secret");
        verif_reach("reconstructed");
    } else {
        std::vector<ShamirShare> pick(shares.end() - static_cast<long>(t), shares.end());
        const auto back = Shamir::combine(pick, static_cast<std::uint8_t>(t));
        for (std::size_t i = 0; i < 32; ++i) verif_assert(back[i] == secret[i], "C10: the last t shares reconstruct the secret");
        verif_reach("reconstructed");
    }
}
// m shares with symbolic indices; each share's 32 value bytes are one symbolic byte repeated (so the zero-byte shortcut
// in interpolate is explored without 2^(32 m) paths). Fewer than t shares, or any repeated index, must throw invalid_argument.
extern "C" void h_c10_reject(unsigned long t, unsigned long m, unsigned long idx_bound) {
    std::vector<ShamirShare> shares(m);
    bool dup = false;
    for (std::size_t i = 0; i < m; ++i) {
        shares[i].index = nondet_u8("index");
        if (idx_bound) verif_assume(shares[i].index < idx_bound);
        const std::uint8_t v = nondet_u8("value");
        for (auto& b : shares[i].value) b = v;
    }
    for (std::size_t i = 0; i < m; ++i) for (std::size_t j = i + 1; j < m; ++j) dup = dup || shares[i].index == shares[j].index;
    verif_assume(m < t || dup);
    bool threw = false;
    try { (void)Shamir::combine(shares, static_cast<std::uint8_t>(t)); }
    catch (const std::invalid_argument&) { threw = true; }
    verif_assert(threw, "C10: too few shares or repeated indices are refused with invalid_argument");
    verif_reach("refused-or-flagged");
}
extern "C" void h_c10_split_args(unsigned long) {
    std::array<std::uint8_t, 32> secret{}; nondet_bytes(secret.data(), 32, "secret");
    const std::uint8_t t = nondet_u8("t"), n = nondet_u8("n");
    verif_assume(t == 0 || n == 0 || t > n);
    bool threw = false;
    try { (void)Shamir::split(secret, t, n); } catch (const std::invalid_argument&) { threw = true; }
    verif_assert(threw, "C10: split refuses t = 0, n = 0 and t > n");
    verif_reach("refused");
}
// secrecy, necessary condition: with threshold t, the first t-1 shares must NOT always determine the secret. The first two draws of the
// random device are symbolic (every octet 0 or 1), later draws are fixed non-zero values; if for every value of them the t-1 shares interpolate (as a degree t-2 polynomial) to the
// secret byte, the top coefficient is never random and t-1 shares reveal the secret. The witness below must be reachable.
extern "C" void h_c10_secrecy(unsigned long t) {
    std::array<std::uint8_t, 32> secret{};
    for (std::size_t i = 0; i < 32; ++i) secret[i] = static_cast<std::uint8_t>(0x5A + 7 * i);
    g_rd_calls = 0; g_rd_lo = 0; g_rd_hi = 2; g_rd_small = true;                           // the first two draws symbolic, the rest fixed; the secret itself is concrete here
    const auto shares = Shamir::split(secret, static_cast<std::uint8_t>(t), static_cast<std::uint8_t>(t));
    if (shares.size() != t) return;
    std::vector<ShamirShare> fewer(shares.begin(), shares.begin() + (t - 1));
    const auto guess = Shamir::combine(fewer, static_cast<std::uint8_t>(t - 1));
    if (guess[0] != secret[0]) verif_reach("fewer-shares-miss-the-secret");
    verif_reach("split");
}
