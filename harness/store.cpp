// Harness unit for core/ChunkStore.cpp (C01): histories of put / get / get_record / sweep / snapshot with a symbolic clock.
#include "stdmodels.h"
#include "src/core/ChunkStore.cpp"
using namespace ephemeralnet;
namespace {
constexpr long long kNs = 1000000000LL;
// present: a record was stored and not yet reported by a sweep. maybe_dropped: a lookup has noticed the expiry - the store may drop the
// record then or keep it for the next sweep (both satisfy the property: it is never served again either way).
struct Oracle { bool maybe_dropped = false; bool present = false; std::uint8_t b0 = 0, b1 = 0; std::size_t len = 0; long long deadline = 0; };
ChunkId make_id(int which) { ChunkId id{}; for (std::size_t i = 0; i < 32; ++i) id[i] = static_cast<std::uint8_t>(which ? 0xB0 + i : 0x0A + 3 * i); return id; }
using verif_env::advance_clock;
}
// k steps over two chunk ids; opcode, arguments and the clock advance before every step are symbolic.
// The opcode sequence is fixed per job (base-5 digits of `seq`, first step = lowest digit) and the driver fans all sequences
// out over the cores; everything else (ids, TTLs, payload, clock) stays symbolic.
extern "C" void h_c01_history(unsigned long k, unsigned long seq) {
    Config cfg{};
    const std::uint32_t dflt = nondet_u8("default_ttl_s") + 1u;   // default TTL 1..256 s
    cfg.default_chunk_ttl = std::chrono::seconds(dflt);
    ChunkStore store(cfg);
    Oracle o[2];
    verif_env::start_clock();
    for (unsigned long step = 0; step < k; ++step) {
        advance_clock();
        const long long now = verif_env::g_steady_ns;
        const unsigned op = static_cast<unsigned>(seq % 5); seq /= 5;
        const bool which = nondet_bool("which");
        const int w = verif_concretize(which, 2) ? 1 : 0;
        const ChunkId id = make_id(w);
        if (op == 0) {
            // requested TTL in [-8, 247] s; event times on the 1/8 s grid (see stdmodels.h)
            const std::int64_t ttl = static_cast<std::int64_t>(nondet_u8("ttl_s")) - 8;
            const bool two = nondet_bool("two_bytes");
            ChunkData data;
            const std::uint8_t b0 = nondet_u8("b0"), b1 = nondet_u8("b1");
            data.push_back(b0);
            if (verif_concretize(two, 2)) data.push_back(b1);
            o[w].present = true; o[w].maybe_dropped = false; o[w].b0 = b0; o[w].b1 = b1; o[w].len = data.size();
            const std::int64_t eff = ttl > 0 ? ttl : static_cast<std::int64_t>(dflt);
            o[w].deadline = now + (eff < 1 ? 1 : eff) * kNs;
            store.put(id, std::move(data), std::chrono::seconds(ttl));
            verif_reach("put");
        } else if (op == 1) {
            const auto got = store.get(id);
            const bool live = o[w].present && now < o[w].deadline;
            verif_assert(got.has_value() == live, "C01: get serves a chunk exactly while it is live");
            if (got.has_value() && live) {
                verif_assert(got->size() == o[w].len && (*got)[0] == o[w].b0 && (o[w].len < 2 || (*got)[1] == o[w].b1), "C01: get returns exactly the stored bytes");
                verif_reach("get-live");
            } else { if (o[w].present) { verif_reach("get-expired"); o[w].maybe_dropped = true; } }
        } else if (op == 2) {
            const auto rec = store.get_record(id);
            const bool live = o[w].present && now < o[w].deadline;
            verif_assert(rec.has_value() == live, "C01: get_record serves a chunk exactly while it is live");
            if (rec.has_value() && live) {
                verif_assert(rec->data.size() == o[w].len && rec->data[0] == o[w].b0 && (o[w].len < 2 || rec->data[1] == o[w].b1), "C01: get_record returns exactly the stored bytes");
                verif_assert(rec->expires_at.time_since_epoch().count() == o[w].deadline, "C01: the record carries the deadline of the latest store");
                verif_assert(rec->id == id, "C01: record id");
            } else if (o[w].present) o[w].maybe_dropped = true;
        } else if (op == 3) {
            const auto removed = store.sweep_expired();
            std::size_t lo = 0, hi = 0;
            for (int j = 0; j < 2; ++j) {
                const bool dead = o[j].present && now >= o[j].deadline;
                std::size_t cnt = 0;
                for (const auto& r : removed) if (r == make_id(j)) ++cnt;
                if (dead && !o[j].maybe_dropped) verif_assert(cnt == 1, "C01: sweep removes every expired chunk it still holds, once");
                else if (dead) verif_assert(cnt <= 1, "C01: sweep reports an expired chunk at most once");
                else verif_assert(cnt == 0, "C01: sweep never removes a live chunk");
                if (dead) { lo += o[j].maybe_dropped ? 0 : 1; ++hi; o[j].present = false; o[j].maybe_dropped = false; verif_reach("swept"); }
            }
            verif_assert(removed.size() >= lo && removed.size() <= hi, "C01: sweep reports nothing else");
        } else {
            const auto snap = store.snapshot();
            std::size_t lo = 0, hi = 0;
            for (int j = 0; j < 2; ++j) {
                if (!o[j].present) { for (const auto& e : snap) verif_assert(!(e.id == make_id(j)), "C01: snapshot lists no chunk that was never stored or already swept"); continue; }
                std::size_t cnt = 0;
                for (const auto& e : snap) if (e.id == make_id(j)) { ++cnt; verif_assert(e.expires_at.time_since_epoch().count() == o[j].deadline && e.size == o[j].len, "C01: snapshot entry carries the latest deadline and size"); }
                if (o[j].maybe_dropped) verif_assert(cnt <= 1, "C01: snapshot lists a record at most once"); else verif_assert(cnt == 1, "C01: snapshot lists every held record once");
                lo += o[j].maybe_dropped ? 0 : 1; ++hi;
            }
            verif_assert(snap.size() >= lo && snap.size() <= hi && store.size() == snap.size(), "C01: snapshot lists nothing else");
        }
    }
}
