// CLANG-STD: c++17
// In C++17 mode libstdc++ declares std::string as an extern template, so a C++17 harness unit references its members as externals.
// This unit supplies them to Engine S as IR by explicitly instantiating the class (loaded as an extra module).
#include <string>
template class std::__cxx11::basic_string<char>;
