// Harness unit for the three filename sanitisers (C31): security::sanitize_filename_hint (StoreProof.cpp), the lambda inside
// Node::store_chunk and the lambda inside the CLI's fetch command (both lifted textually from the current source at check time).
// std::filesystem::path::filename() is redirected (engine) to the POSIX model below; the native replay uses the real libstdc++.
#include "verif.h"
#include <filesystem>
#include <string>
#include <optional>
#include <algorithm>
#include <cctype>
#include <vector>
#include "ephemeralnet/security/StoreProof.hpp"
namespace ephemeralnet::security {
#include STOREPROOF_SANITIZE_SNIPPET
}
// POSIX generic-format model of path::filename(): the text after the last '/', empty when the path ends in '/'
extern "C" void h_path_filename(std::filesystem::path* out, const std::filesystem::path* self) {
    const std::string& s = self->native();
    const auto pos = s.rfind('/');
    new (out) std::filesystem::path(pos == std::string::npos ? s : s.substr(pos + 1));
}
extern "C" void h_path_split_stub(std::filesystem::path*) {}
static std::string cli_sanitize(const std::string& candidate_in) {
#include CLI_SANITIZE_SNIPPET
    return sanitize_filename(candidate_in);
}
namespace ephemeralnet {      // the lifted Node block may call project helpers by their names inside this namespace
struct FakeMeta {   // the only operations the lifted block uses: operator[] and (in the harness) find
    std::vector<std::pair<std::string, std::string>> kv;
    std::string& operator[](const std::string& k) { for (auto& e : kv) if (e.first == k) return e.second; kv.emplace_back(k, std::string()); return kv.back().second; }
    const std::string* find(const std::string& k) const { for (auto& e : kv) if (e.first == k) return &e.second; return nullptr; }
};
struct FakeManifest { FakeMeta metadata; };
static std::optional<std::string> node_sanitize(std::optional<std::string> original_name) {
    FakeManifest manifest;
#include NODE_SANITIZE_SNIPPET
    const std::string* v = manifest.metadata.find("filename");
    if (!v) return std::nullopt;
    return *v;
}
}  // namespace ephemeralnet
using ephemeralnet::node_sanitize;
// POSIX model of path::extension(): from the last '.' of the filename, unless the filename is "." / ".." or its only dot is the first character
extern "C" void h_path_extension(std::filesystem::path* out, const std::filesystem::path* self) {
    const std::string& s = self->native();
    const auto slash = s.rfind('/');
    const std::string f = slash == std::string::npos ? s : s.substr(slash + 1);
    const auto dot = f.rfind('.');
    new (out) std::filesystem::path((dot == std::string::npos || dot == 0 || f == "..") ? std::string() : f.substr(dot));
}
static bool bad_char(unsigned char c) { return c < 0x20 || c == 0x7f || c == '/' || c == '\\' || c == ':' || c == '*' || c == '?' || c == '"' || c == '<' || c == '>' || c == '|'; }
static void check_name(const std::string& r, bool strict_chars, const char* who) {
    (void)who;
    verif_assert(r != "." && r != "..", "C31: the name is never . or ..");
    verif_assert(r.size() <= 255, "C31: the name is at most 255 bytes");
    for (unsigned char c : r) {
        verif_assert(c != '/', "C31: the name contains no path separator");
        if (strict_chars) verif_assert(!bad_char(c), "C31: the name contains no control or reserved character");
    }
}
static std::string make_input(unsigned long len, unsigned long prefix_kind) {
    // prefix_kind: 0 none, 1 "d/" (directory prefix), 2 "../" , 3 "/" ; then len symbolic bytes
    std::string s = prefix_kind == 1 ? "d/" : prefix_kind == 2 ? "../" : prefix_kind == 3 ? "/" : "";
    for (unsigned long i = 0; i < len; ++i) s.push_back(static_cast<char>(nondet_u8("ch")));
    return s;
}
extern "C" void h_c31_cli(unsigned long len, unsigned long prefix_kind) {
    const std::string in = make_input(len, prefix_kind);
    const std::string r = cli_sanitize(in);
    check_name(r, true, "cli");
    // an empty result makes the caller fall back to the chunk-id hex / a timestamp name: also a plain child name
    if (!r.empty()) {
        // direct child of the chosen directory: dir / r appends exactly one component because r is non-empty, has no separator and is not . or ..
        verif_reach("named");
    } else verif_reach("fallback");
}
extern "C" void h_c31_node(unsigned long len, unsigned long prefix_kind) {
    const std::string in = make_input(len, prefix_kind);
    const auto r = node_sanitize(in);
    if (r.has_value()) { verif_assert(!r->empty(), "C31: the node never records an empty filename"); check_name(*r, true, "node"); verif_reach("recorded"); }
    else verif_reach("omitted");
}
extern "C" void h_c31_hint(unsigned long len, unsigned long prefix_kind) {
    const std::string in = make_input(len, prefix_kind);
    const auto r = ephemeralnet::security::sanitize_filename_hint(in);
    if (r.has_value()) { verif_assert(!r->empty(), "C31: no empty hint"); check_name(*r, false, "hint"); verif_reach("hint"); }
    else verif_reach("nohint");
}
// long names: 300 bytes, mostly concrete, a symbolic window around the 255-byte cut
extern "C" void h_c31_long(unsigned long which) {
    std::string in(300, 'A');
    in[254] = static_cast<char>(nondet_u8("ch")); in[255] = static_cast<char>(nondet_u8("ch"));   // the bytes on both sides of the 255-byte cut
    in[296] = '.'; in[298] = static_cast<char>(nondet_u8("ext"));
    if (which == 0) { const auto r = cli_sanitize(in); check_name(r, true, "cli"); }
    else if (which == 1) { const auto r = node_sanitize(in); if (r) check_name(*r, true, "node"); }
    else { const auto r = ephemeralnet::security::sanitize_filename_hint(in); if (r) check_name(*r, false, "hint"); }
    verif_reach("long");
}
