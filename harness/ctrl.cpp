// Harness unit for the control-plane command handlers (C27 token gate, C28 STORE admission and rate limits).
// ControlServer::Impl is a class private to daemon/ControlServer.cpp, built on sockets, a std::thread and std::ostringstream.
// Its handlers handle_stop / handle_store / handle_fetch, the four rate-limit kernels and the small helpers they use are lifted
// textually from the current source into the class FakeImpl below, which supplies what surrounds them: a recording node, a recording
// send_response, no logging. Requests are handed over already parsed (ParsedRequest), so recv()/parse_request are not encoded.
#include "stdmodels.h"
#include "rbtree_models.h"
#include <atomic>
#include <functional>
#include <mutex>
#include <span>
#include <charconv>
#include <filesystem>
#include <algorithm>
#include "ephemeralnet/daemon/ControlPlane.hpp"
#include "ephemeralnet/daemon/StructuredLogger.hpp"
#include "ephemeralnet/security/StoreProof.hpp"
#include "ephemeralnet/protocol/Manifest.hpp"
namespace {
struct Rec {
    unsigned store_calls = 0, ingest_calls = 0, fetch_calls = 0, stop_transport_calls = 0, stop_callbacks = 0, file_writes = 0, responses = 0;
    bool last_success = false; std::string last_code; bool last_has_payload = false;
    std::uint64_t last_store_ttl = 0;
} g_rec;
ephemeralnet::protocol::Manifest g_manifest; bool g_decodable = true; bool g_pow_ok = true; unsigned g_pow_checks = 0;
}
namespace ephemeralnet::protocol {
Manifest decode_manifest(const std::string&) { if (!g_decodable) throw std::invalid_argument("undecodable"); return g_manifest; }
std::string encode_manifest(const Manifest&) { return "eph://stub"; }
}
namespace ephemeralnet::security {
ChunkId derive_chunk_id(std::span<const std::uint8_t> data) { ChunkId id{}; id[0] = 0xD1; id[1] = static_cast<std::uint8_t>(data.size()); return id; }   // the id derivation (SHA-256) is not the subject
std::optional<std::string> sanitize_filename_hint(std::string_view raw) { if (raw.empty()) return std::nullopt; return std::string(raw); }              // C31
bool store_pow_valid(const StoreWorkInput&, std::uint64_t, std::uint8_t) { ++g_pow_checks; return g_pow_ok; }                                           // C19
}
namespace ephemeralnet::daemon {
std::size_t max_control_stream_bytes() { return 64; }          // small cap so that over-cap payloads are cheap to build
using NativeSocket = int;
namespace {
#include SNIP_K1
#include SNIP_K2
#include SNIP_K3
#include SNIP_K4
#include SNIP_K5
#include SNIP_K6
#include SNIP_TO_UPPER
#include SNIP_PARSE_UINT64
#include SNIP_CT_EQUAL
// identity of a token holder: the real function is "token:" + hex(SHA-256(token)) through an ostringstream; here an injective text of the token
std::string hashed_token_identity(const std::string& token) { return token.empty() ? std::string("token:empty") : "token:" + token; }
#include SNIP_PARSED_REQUEST
#include SNIP_MAKE_OK
#include SNIP_MAKE_ERROR
void write_file_bytes(const std::filesystem::path&, std::span<const std::uint8_t>) { ++g_rec.file_writes; }
void log_event(StructuredLogger::Level, std::string_view, StructuredLogger::FieldList = {}) {}
#include SNIP_METRICS
#include SNIP_AUTO
}
struct FakeNode {
    Config cfg;
    const Config& config() const { return cfg; }
    void stop_transport() { ++g_rec.stop_transport_calls; }
    protocol::Manifest store_chunk(const ChunkId& id, ChunkData, std::chrono::seconds ttl, std::optional<std::string>) { ++g_rec.store_calls; g_rec.last_store_ttl = static_cast<std::uint64_t>(ttl.count()); protocol::Manifest m{}; m.chunk_id = id; return m; }
    bool ingest_manifest(const std::string&) { ++g_rec.ingest_calls; return true; }
    std::optional<ChunkData> fetch_chunk(const ChunkId&) { ++g_rec.fetch_calls; return ChunkData{1, 2, 3}; }
};
class FakeImpl {
public:
    FakeImpl(FakeNode& node, std::mutex& m) : node_(node), node_mutex_(m) { stop_callback_ = [] { ++g_rec.stop_callbacks; }; }
    static void send_response(NativeSocket, ControlFields fields, bool success, std::span<const std::uint8_t> payload = {}) {
        ++g_rec.responses; g_rec.last_success = success; g_rec.last_has_payload = payload.size() > 0;
        const auto it = fields.find("CODE"); g_rec.last_code = it != fields.end() ? it->second : std::string();
    }
    FakeNode& node_; std::mutex& node_mutex_; std::function<void()> stop_callback_; Metrics metrics_{};
    std::atomic<bool> transport_stopped_{false};
    std::mutex rate_mutex_;
    std::unordered_map<std::string, std::vector<std::chrono::steady_clock::time_point>> store_history_, fetch_history_, store_pow_failures_;
#include SNIP_ALLOW_STORE
#include SNIP_NOTE_POW_FAILURE
#include SNIP_CLEAR_POW_FAILURES
#include SNIP_ALLOW_FETCH
#include SNIP_AUTHORIZE
#include SNIP_HANDLE_STOP
#include SNIP_HANDLE_STORE
#include SNIP_HANDLE_FETCH
};
}  // namespace ephemeralnet::daemon
extern "C" void h_path_split_stub2(std::filesystem::path*) {}
extern "C" void h_fs_absolute(std::filesystem::path* out, const std::filesystem::path* in) { new (out) std::filesystem::path(*in); }
// the error_code overload of std::filesystem::absolute: identity on the text; the empty path is an error (as in the real one)
extern "C" void h_fs_absolute_ec(std::filesystem::path* out, const std::filesystem::path* in, std::error_code* ec) {
    if (in->native().empty()) { *ec = std::error_code(22, ec->category()); new (out) std::filesystem::path(); return; }
    *ec = std::error_code(0, ec->category()); new (out) std::filesystem::path(*in);
}
using namespace ephemeralnet; using namespace ephemeralnet::daemon;
namespace {
std::string sym_text(unsigned long n, const char* tag) { std::string t; for (unsigned long i = 0; i < n; ++i) t.push_back(static_cast<char>(nondet_u8(tag))); return t; }
// handle_stop takes (client, remote) on trees where STOP is not token-gated and may take the request as well once it is
template <class I, class Q> void call_stop(I& impl, const Q& rq) {
    const std::string remote = "remote";
    if constexpr (requires { impl.handle_stop(7, rq, remote); }) impl.handle_stop(7, rq, remote); else impl.handle_stop(7, remote);
}
bool ends_with(const std::string& s, const char* suf) { const std::string x(suf); return s.size() >= x.size() && s.compare(s.size() - x.size(), x.size(), x) == 0; }
}
// ---------------------------------------------------------------- C27: with a configured token, STORE / FETCH / STOP without the exact token have no effect
// command: 0 STOP, 1 STORE, 2 FETCH to a daemon-side path, 3 FETCH streamed; token_form: 0 absent, 1 same length, 2 shorter, 3 longer, 4 / 5 longer by 256 / 512 bytes
extern "C" void h_c27_gate(unsigned long command, unsigned long token_form) {
    FakeNode node; node.cfg.control_token = std::string("tok"); node.cfg.store_pow_difficulty = 0;
    node.cfg.min_manifest_ttl = std::chrono::seconds(1); node.cfg.max_manifest_ttl = std::chrono::seconds(1000); node.cfg.default_chunk_ttl = std::chrono::seconds(10);
    std::mutex m; FakeImpl impl(node, m);
    g_rec = Rec{}; g_manifest = protocol::Manifest{}; g_decodable = true; verif_env::g_steady_ns = 1000000000LL;
    ParsedRequest rq; rq.payload = {1, 2, 3}; rq.payload_header_present = true;
    if (token_form) { const std::string t = sym_text(token_form == 1 ? 3 : token_form == 2 ? 2 : token_form == 3 ? 4 : token_form == 4 ? 259 : 515, "token"); verif_assume(t != "tok"); rq.fields["TOKEN"] = t; }
    rq.fields["MANIFEST"] = "eph://m";
    if (command == 2) rq.fields["OUT"] = "out.bin";
    if (command == 3) rq.fields["STREAM"] = "client";
    if (command == 0) call_stop(impl, rq);
    else if (command == 1) impl.handle_store(7, rq, "remote");
    else impl.handle_fetch(7, rq, "remote");
    verif_assert(g_rec.responses == 1 && !g_rec.last_success && ends_with(g_rec.last_code, "_UNAUTHENTICATED"), "C27: a request without the exact control token is refused with an authentication error");
    verif_assert(g_rec.store_calls == 0 && g_rec.ingest_calls == 0 && g_rec.fetch_calls == 0 && g_rec.file_writes == 0 && !g_rec.last_has_payload, "C27: a refused request stores, registers, fetches and writes nothing");
    verif_assert(g_rec.stop_callbacks == 0 && g_rec.stop_transport_calls == 0, "C27: a refused STOP leaves the daemon running");
    verif_reach("refused");
}
// with the exact token the commands go through (the gate is not simply closed)
extern "C" void h_c27_open(unsigned long command) {
    FakeNode node; node.cfg.control_token = std::string("tok"); node.cfg.store_pow_difficulty = 0;
    node.cfg.min_manifest_ttl = std::chrono::seconds(1); node.cfg.max_manifest_ttl = std::chrono::seconds(1000); node.cfg.default_chunk_ttl = std::chrono::seconds(10);
    std::mutex m; FakeImpl impl(node, m);
    g_rec = Rec{}; g_manifest = protocol::Manifest{}; g_decodable = true; verif_env::g_steady_ns = 1000000000LL;
    ParsedRequest rq; rq.payload = {1, 2, 3}; rq.payload_header_present = true; rq.fields["TOKEN"] = "tok"; rq.fields["MANIFEST"] = "eph://m";
    if (command == 2) rq.fields["OUT"] = "out.bin";
    if (command == 3) rq.fields["STREAM"] = "client";
    if (command == 0) call_stop(impl, rq); else if (command == 1) impl.handle_store(7, rq, "remote"); else impl.handle_fetch(7, rq, "remote");
    verif_assert(g_rec.responses == 1 && g_rec.last_success, "C27: the exact token is accepted");
    verif_reach("accepted");
}
// ---------------------------------------------------------------- C28: STORE admission
// size gate, TTL gate (decimal TTL text with symbolic digits), PoW gate
extern "C" void h_c28_admission(unsigned long payload_len, unsigned long ttl_digits) {
    FakeNode node; node.cfg.store_pow_difficulty = nondet_u8("store_pow_difficulty") & 31;
    const std::uint16_t mn = nondet_u16("min_ttl_s"), mx = nondet_u16("max_ttl_s"); verif_assume(mn >= 1 && mn <= mx);
    node.cfg.min_manifest_ttl = std::chrono::seconds(mn); node.cfg.max_manifest_ttl = std::chrono::seconds(mx); node.cfg.default_chunk_ttl = std::chrono::seconds(nondet_u16("default_ttl_s"));
    std::mutex m; FakeImpl impl(node, m);
    g_rec = Rec{}; g_pow_checks = 0; g_pow_ok = nondet_bool("pow_valid"); verif_env::g_steady_ns = 1000000000LL;
    ParsedRequest rq; rq.payload.assign(payload_len, 7); rq.payload_header_present = true;
    std::uint64_t ttl_value = static_cast<std::uint64_t>(node.cfg.default_chunk_ttl.count()); bool ttl_text_valid = true;
    if (ttl_digits) {
        std::string t = sym_text(ttl_digits, "ttl_digit"); rq.fields["TTL"] = t; ttl_value = 0;
        for (char ch : t) { if (ch < '0' || ch > '9') ttl_text_valid = false; ttl_value = ttl_value * 10 + static_cast<unsigned>(ch - '0'); }
    }
    const bool has_pow = nondet_bool("has_pow_header"); if (verif_concretize(has_pow, 2)) rq.fields["STORE-POW"] = "12345";
    impl.handle_store(7, rq, "remote");
    const bool size_ok = payload_len <= 64;
    const bool ttl_ok = ttl_text_valid && ttl_value >= mn && ttl_value <= mx;
    const bool pow_ok = node.cfg.store_pow_difficulty == 0 || (has_pow && g_pow_ok);
    verif_assert((g_rec.store_calls == 1) == (size_ok && ttl_ok && pow_ok), "C28: a STORE is accepted exactly when its size is within the cap, its TTL inside the configured window and (when required) its proof of work valid");
    if (g_rec.store_calls) { verif_assert(g_rec.last_success && g_rec.last_store_ttl == ttl_value, "C28: the accepted TTL is the requested one"); if (node.cfg.store_pow_difficulty) verif_assert(g_pow_checks == 1, "C28: the proof of work was checked"); verif_reach("accepted"); }
    else { verif_assert(!g_rec.last_success && g_rec.responses == 1, "C28: a refused STORE gets an error response"); verif_reach("refused"); }
}
// rate limits: k STOREs (or streamed FETCHes) from ONE client address at symbolic times, each with an arbitrary TOKEN header value,
// no control token configured: at most 6 (12) are accepted in any 30 s window
extern "C" void h_c28_rate(unsigned long k, unsigned long fetch, unsigned long token_mode) {
    FakeNode node; node.cfg.store_pow_difficulty = 0; node.cfg.min_manifest_ttl = std::chrono::seconds(1); node.cfg.max_manifest_ttl = std::chrono::seconds(1000); node.cfg.default_chunk_ttl = std::chrono::seconds(10);
    std::mutex m; FakeImpl impl(node, m);
    g_rec = Rec{}; g_manifest = protocol::Manifest{}; g_decodable = true;
    long long now_s = 100, accepted_at[16]; unsigned na = 0; const unsigned limit = fetch ? 12 : 6;
    for (unsigned long i = 0; i < k; ++i) {
        now_s += nondet_u8("advance_s") & ((token_mode >> 2) ? 3 : 15);      // token_mode bit 2: gaps of 0..3 s instead of 0..15 s verif_env::g_steady_ns = now_s * 1000000000LL;
        ParsedRequest rq; rq.payload = {1}; rq.payload_header_present = true; rq.fields["MANIFEST"] = "eph://m"; if (fetch) rq.fields["STREAM"] = "client";
        // TOKEN header per request: none / a different value every time / the same value every time (fixed per job: the values only key a map)
        if ((token_mode & 3) == 1) rq.fields["TOKEN"] = std::string(1, static_cast<char>('a' + i)); else if ((token_mode & 3) == 2) rq.fields["TOKEN"] = "same";
        const unsigned before = fetch ? g_rec.responses : g_rec.store_calls; const bool was = g_rec.last_success;
        if (fetch) impl.handle_fetch(7, rq, "10.1.2.3"); else impl.handle_store(7, rq, "10.1.2.3");
        (void)before; (void)was;
        const bool accepted = g_rec.last_success;
        unsigned in_window = 0; for (unsigned j = 0; j < na; ++j) if (now_s - accepted_at[j] <= 30) ++in_window;
        if (accepted) { verif_assert(in_window < limit, "C28: one client address gets at most 6 STOREs / 12 streamed FETCHes accepted in any 30 s window, whatever TOKEN header it sends"); accepted_at[na++] = now_s; verif_reach("accepted"); } else verif_reach("limited");
    }
    verif_reach("rated");
}
