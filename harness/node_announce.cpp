// Harness unit for Node::handle_announce (C21 admission clause, C03 announce clause) on a PARTIAL Node.
// handle_announce, verify_announce_pow, the throttle / lock-out kernels, manifest_ttl, enforce_manifest_ttl, validate_shards and
// clamp_chunk_ttl are lifted from the current core/Node.cpp; KademliaTable and ReputationManager are the real units.
// decode_manifest is supplied by the harness (C17/C18 decide the codec); the PoW predicate announce_pow_valid is a symbolic verdict
// (C19 decides the predicate); update_swarm_plan, note_peer_seed, schedule_assigned_fetch and broadcast_manifest are recorders.
#include "stdmodels.h"
#include "rbtree_models.h"
#include <atomic>
#include <algorithm>
#define private public
#include "ephemeralnet/core/Node.hpp"
#undef private
#include "src/dht/KademliaTable.cpp"
#include "src/network/ReputationManager.cpp"
namespace {
ephemeralnet::protocol::Manifest g_manifest; bool g_decodable = true; bool g_pow_ok = true;
unsigned g_plan_updates = 0, g_seed_notes = 0, g_fetches_scheduled = 0, g_broadcasts = 0;
}
namespace ephemeralnet::protocol { Manifest decode_manifest(const std::string&) { if (!g_decodable) throw std::invalid_argument("undecodable"); return g_manifest; } }
namespace ephemeralnet {
namespace {
using SchedulerLock = std::unique_lock<std::recursive_mutex>;
bool announce_pow_valid(const protocol::AnnouncePayload&, std::uint8_t) { return g_pow_ok; }
#include SNIP_K_FAILURE_WINDOW
#include SNIP_K_LOCKOUT
#include SNIP_K_THRESHOLD
#include SNIP_K_MIN_TTL
#include SNIP_CLAMP_TTL
#include SNIP_ENFORCE_TTL
#include SNIP_MANIFEST_TTL
#include SNIP_VALIDATE_SHARDS
#include SNIP_AUTO
}
void Node::update_swarm_plan(const protocol::Manifest&) { ++g_plan_updates; }
void Node::note_peer_seed(const ChunkId&, const PeerId&) { ++g_seed_notes; }
void Node::schedule_assigned_fetch(const protocol::AnnouncePayload&) { ++g_fetches_scheduled; }
void Node::broadcast_manifest(const protocol::Manifest&) { ++g_broadcasts; }
#include SNIP_REGISTER_ANNOUNCE
#include SNIP_SENDER_LOCKED
#include SNIP_RECORD_FAILURE
#include SNIP_CLEAR_FAILURES
#include SNIP_VERIFY_ANNOUNCE_POW
#include SNIP_HANDLE_ANNOUNCE
}
using namespace ephemeralnet;
namespace {
constexpr long long kNs = 1000000000LL;
struct PartialNode {
    alignas(Node) unsigned char raw[sizeof(Node)];
    Node* node() { return reinterpret_cast<Node*>(raw); }
    PartialNode() {
        Node* n = node();
        new (&n->id_) PeerId(); n->id_[0] = 0x5A;
        new (&n->config_) Config();
        new (&n->peer_announce_history_) decltype(n->peer_announce_history_)();
        new (&n->peer_announce_failure_history_) decltype(n->peer_announce_failure_history_)();
        new (&n->peer_announce_lockouts_) decltype(n->peer_announce_lockouts_)();
        new (&n->reputation_) network::ReputationManager();
        new (&n->scheduler_mutex_) std::recursive_mutex();
        new (&n->manifest_cache_) decltype(n->manifest_cache_)();
        new (&n->dht_) KademliaTable(n->id_);
        new (&n->pow_counters_) decltype(n->pow_counters_)();
    }
};
PeerId peer_n(unsigned n) { PeerId p{}; p[0] = static_cast<std::uint8_t>(0xA0 + n); p[31] = static_cast<std::uint8_t>(n); return p; }
ChunkId chunk_n(unsigned n) { ChunkId c{}; c[0] = static_cast<std::uint8_t>(0xC0 + n); c[31] = static_cast<std::uint8_t>(7 * n + 1); return c; }
std::chrono::steady_clock::time_point tp(long long ns) { return std::chrono::steady_clock::time_point(std::chrono::nanoseconds(ns)); }
}
// One ANNOUNCE from peer 0 about chunk 0. Everything the admission depends on is symbolic: a lock-out entry and an earlier admitted
// announce in the pre-state, whether the payload names the sender, whether a manifest is carried / decodable / for this chunk, its shares
// and threshold, its remaining life against the sanitised window, the assigned shards, PoW difficulty / message version / PoW verdict,
// the announced TTL and endpoint. pre_cached: a valid manifest for the chunk is already cached (a re-announce).
extern "C" void h_c21_announce(unsigned long nshards, unsigned long pre_cached) {
    PartialNode pn; Node* n = pn.node();
    n->config_.min_manifest_ttl = std::chrono::seconds(2); n->config_.max_manifest_ttl = std::chrono::seconds(40);
    n->config_.announce_min_interval = std::chrono::seconds(5); n->config_.announce_burst_limit = 2; n->config_.announce_burst_window = std::chrono::seconds(30);
    const long long now_s = 9000; verif_env::g_steady_ns = now_s * kNs; verif_env::g_system_ns = 500 * kNs;
    const std::string sender_key = peer_id_to_string(peer_n(0)), chunk_key = chunk_id_to_string(chunk_n(0));
    // pre-state
    const bool has_lock = nondet_bool("lockout_entry"); const std::uint8_t lock_left = nondet_u8("lockout_ends_in_s_minus_8");      // ends in [-8, 247] s
    if (has_lock) n->peer_announce_lockouts_[sender_key] = tp((now_s - 8 + lock_left) * kNs);
    const bool has_prev = nondet_bool("earlier_announce"); const std::uint8_t prev_ago = nondet_u8("earlier_announce_s_ago") & 15;
    if (has_prev) n->peer_announce_history_[sender_key].push_back(tp((now_s - prev_ago) * kNs));
    protocol::Manifest cached{};
    if (pre_cached) { cached.chunk_id = chunk_n(0); cached.threshold = 1; cached.total_shares = 1; protocol::KeyShard s{}; s.index = 9; cached.shards.push_back(s); cached.nonce.bytes[0] = 0xEE; cached.expires_at = std::chrono::system_clock::time_point(std::chrono::nanoseconds((500 + 30) * kNs)); n->manifest_cache_[chunk_key] = cached; }
    // the message
    protocol::AnnouncePayload a{}; a.chunk_id = chunk_n(0);
    const bool names_itself = nondet_bool("names_itself"); a.peer_id = names_itself ? peer_n(0) : peer_n(1);
    const bool has_uri = nondet_bool("has_manifest_uri"); a.manifest_uri = has_uri ? "eph://m" : "";
    const std::uint16_t ttl_field = nondet_u8("announced_ttl_s"); a.ttl = std::chrono::seconds(ttl_field);
    const bool has_endpoint = nondet_bool("has_endpoint"); if (verif_concretize(has_endpoint, 2)) a.endpoint = "10.1.2.3:4000";
    const bool assigned = nondet_bool("assigned_a_shard"); const std::uint8_t assigned_index = nondet_u8("assigned_index") & 3;
    if (verif_concretize(assigned, 2)) a.assigned_shards.push_back(assigned_index);
    g_decodable = nondet_bool("decodable"); g_pow_ok = nondet_bool("pow_valid");
    const std::uint8_t difficulty = nondet_u8("pow_difficulty") & 1 ? 12 : 0; n->config_.announce_pow_difficulty = difficulty;
    const std::uint8_t version = nondet_u8("message_version") & 7;
    g_manifest = protocol::Manifest{};
    const bool same_chunk = nondet_bool("manifest_for_this_chunk"); g_manifest.chunk_id = same_chunk ? chunk_n(0) : chunk_n(1);
    // the header byte total_shares and the index of the last shard are independent of the shards carried (neither the codec nor
    // validate_shards relates them): both symbolic
    g_manifest.threshold = nondet_u8("threshold") & 3; g_manifest.total_shares = nondet_u8("total_shares_header") & 7;
    const std::uint8_t last_index = nondet_u8("last_shard_index") & 15;
    for (unsigned long i = 0; i < nshards; ++i) { protocol::KeyShard s{}; s.index = i + 1 == nshards ? last_index : static_cast<std::uint8_t>(i + 1); for (std::size_t b = 0; b < 32; ++b) s.value[b] = static_cast<std::uint8_t>(0x31 + 7 * i + b); g_manifest.shards.push_back(s); }
    const std::uint8_t life = nondet_u8("manifest_expires_in_s_minus_4") & 63;                                                      // expires in [-4, 59] s
    g_manifest.expires_at = std::chrono::system_clock::time_point(std::chrono::nanoseconds((500 - 4 + static_cast<long long>(life)) * kNs));
    g_plan_updates = g_seed_notes = g_fetches_scheduled = g_broadcasts = 0;
    const int score_before = n->reputation_.score(peer_n(0));
    // lock discipline (C36): session reader threads run handle_announce concurrently with each other
    verif_watch(&n->manifest_cache_, sizeof n->manifest_cache_, "Node::manifest_cache_"); verif_watch(&n->dht_, sizeof n->dht_, "Node::dht_");
    verif_watch(&n->peer_announce_history_, sizeof n->peer_announce_history_, "Node::peer_announce_history_"); verif_watch(&n->peer_announce_lockouts_, sizeof n->peer_announce_lockouts_, "Node::peer_announce_lockouts_");
    verif_watch(&n->peer_announce_failure_history_, sizeof n->peer_announce_failure_history_, "Node::peer_announce_failure_history_"); verif_watch(&n->reputation_, sizeof n->reputation_, "Node::reputation_");
    verif_lock_name(&n->scheduler_mutex_, "scheduler_mutex_");
    verif_context("reader-thread");
    n->handle_announce(a, peer_n(0), version);
    verif_context("");
    // what happened
    const auto cache_it = n->manifest_cache_.find(chunk_key);
    const bool cache_changed = pre_cached ? !(cache_it != n->manifest_cache_.end() && cache_it->second.nonce.bytes[0] == 0xEE) : cache_it != n->manifest_cache_.end();   // the pre-cached manifest is marked by its nonce
    const auto shard_rec = n->dht_.shard_record(chunk_n(0));
    const auto providers = n->dht_.find_providers(chunk_n(0));
    const bool changed = cache_changed || shard_rec.has_value() || !providers.empty() || g_plan_updates || g_seed_notes || g_fetches_scheduled || g_broadcasts;
    // reference (the statement of C21)
    const bool locked = has_lock && (static_cast<long long>(lock_left) - 8) > 0;
    const bool pow_fine = difficulty == 0 || (version >= 3 && g_pow_ok);
    const bool throttle_fine = !(has_prev && prev_ago < 5);                       // one earlier admitted announce: only the minimum interval can bite
    const long long remaining = static_cast<long long>(life) - 4;
    const bool manifest_fine = has_uri && g_decodable && same_chunk && g_manifest.threshold > 0 && nshards >= g_manifest.threshold && remaining >= 2;
    bool carried = false; for (const auto& sh : g_manifest.shards) if (sh.index == assigned_index) carried = true;
    const bool assigned_fine = !assigned || carried;
    const bool admissible = !locked && names_itself && pow_fine && throttle_fine && manifest_fine && assigned_fine;
    verif_assert(!changed || admissible, "C21: an ANNOUNCE changes node state only if the sender is not locked out, names itself, carries a decodable unexpired manifest for the announced chunk with enough shares including every assigned shard, valid PoW and passes the throttle");
    verif_assert(!admissible || cache_changed, "C21: an admissible ANNOUNCE is taken up (the gate is not simply closed)");
    if (!admissible) verif_assert(n->reputation_.score(peer_n(0)) < score_before || score_before <= -100, "C21: a refused ANNOUNCE counts against the sender");
    if (changed && admissible) {
        const long long cap_ns = (remaining > 40 ? 40 : remaining) * kNs;
        if (!providers.empty()) verif_assert(providers[0].expires_at.time_since_epoch().count() - now_s * kNs <= cap_ns, "C03: a provider contact learned from an ANNOUNCE expires no later than the manifest (and the sanitised maximum)");
        if (shard_rec.has_value()) verif_assert(shard_rec->expires_at.time_since_epoch().count() - now_s * kNs <= cap_ns, "C03: key shares cached from an ANNOUNCE expire no later than the manifest");
        if (cache_it != n->manifest_cache_.end()) verif_assert(cache_it->second.shards.size() == nshards, "C21: the manifest that is cached is the one the ANNOUNCE carried");
        verif_reach("admitted");
    } else verif_reach("refused");
}
// native confirmation for the lock-set job: two reader threads announce concurrently under ThreadSanitizer
#include <thread>
extern "C" void h_c36_tsan_announce(unsigned long) {
    PartialNode pn; Node* n = pn.node();
    n->config_.min_manifest_ttl = std::chrono::seconds(2); n->config_.max_manifest_ttl = std::chrono::seconds(40);
    n->config_.announce_min_interval = std::chrono::seconds(0); n->config_.announce_burst_limit = 100000; n->config_.announce_burst_window = std::chrono::seconds(30);
    verif_env::g_steady_ns = 9000 * kNs; verif_env::g_system_ns = 500 * kNs;
    g_manifest = protocol::Manifest{}; g_manifest.chunk_id = chunk_n(0); g_manifest.threshold = 1; g_manifest.total_shares = 1;
    { protocol::KeyShard s{}; s.index = 1; g_manifest.shards.push_back(s); }
    g_manifest.expires_at = std::chrono::system_clock::time_point(std::chrono::nanoseconds((500 + 30) * kNs));
    auto worker = [&](unsigned who) { for (int i = 0; i < 300; ++i) { protocol::AnnouncePayload a{}; a.chunk_id = chunk_n(0); a.peer_id = peer_n(who); a.manifest_uri = "eph://m"; a.ttl = std::chrono::seconds(10); a.endpoint = "10.1.2.3:4000"; n->handle_announce(a, peer_n(who), 4); } };
    std::thread t1(worker, 0u), t2(worker, 1u);
    t1.join(); t2.join();
    std::printf("TSAN-RUN-DONE\n");
}
