// Harness unit for Node::receive_chunk (replica import) on a PARTIAL Node (C11 tamper clause, C35 no-escaping-exception clause).
// receive_chunk, announce_chunk, manifest_ttl, enforce_manifest_ttl, validate_shards and clear_pending_fetch / note_dispatch_end are
// lifted from the current core/Node.cpp; ChunkStore, KademliaTable, Shamir, CryptoManager and ChaCha20 are the real units.
// SHA-256 is an uninterpreted function in the engine and the real code natively; decode_manifest is supplied by the harness.
#include "stdmodels.h"
#include "rbtree_models.h"
#include <atomic>
#define private public
#include "ephemeralnet/core/Node.hpp"
#undef private
#include "src/core/ChunkStore.cpp"
#include "src/dht/KademliaTable.cpp"
#include "src/crypto/Shamir.cpp"
#include "src/crypto/ChaCha20.cpp"
#include "src/crypto/CryptoManager.cpp"
namespace { unsigned g_rd = 0; }
void std::random_device::_M_init(const std::string&) {}
void std::random_device::_M_fini() {}
std::random_device::result_type std::random_device::_M_getval() { return 0x9E3779B9u * (++g_rd); }
#ifdef VERIF_NATIVE
#include "src/crypto/Sha256.cpp"
#else
#include "ephemeralnet/crypto/Sha256.hpp"
namespace ephemeralnet::crypto {
std::array<std::uint8_t, 32> Sha256::digest(std::span<const std::uint8_t> data) {
    std::array<std::uint8_t, 32> out{}; std::uint8_t in[8] = {0};
    if (data.size() > 7) verif_abort();
    in[0] = static_cast<std::uint8_t>(data.size()); for (std::size_t i = 0; i < data.size(); ++i) in[1 + i] = data[i];
    verif_uf("sha256_short", in, 8, out.data(), 32);
    return out;
}
}
#endif
namespace { ephemeralnet::protocol::Manifest g_manifest; bool g_decodable = true; unsigned g_broadcasts = 0, g_seed_notes = 0; }
namespace ephemeralnet::protocol { Manifest decode_manifest(const std::string&) { if (!g_decodable) throw std::invalid_argument("undecodable"); return g_manifest; } }
namespace ephemeralnet {
namespace {
using SchedulerLock = std::unique_lock<std::recursive_mutex>;
#include SNIP_K_MIN_TTL
#include SNIP_ENFORCE_TTL
#include SNIP_MANIFEST_TTL
#include SNIP_VALIDATE_SHARDS
#include SNIP_AUTO
}
void Node::note_local_seed(const ChunkId&) { ++g_seed_notes; }
void Node::broadcast_manifest(const protocol::Manifest&) { ++g_broadcasts; }
#include SNIP_DISPATCH_END
#include SNIP_CLEAR_PENDING
#include SNIP_ANNOUNCE_CHUNK
#include SNIP_RECEIVE_CHUNK
}
using namespace ephemeralnet;
namespace {
constexpr long long kNs = 1000000000LL;
struct PartialNode {
    alignas(Node) unsigned char raw[sizeof(Node)];
    Node* node() { return reinterpret_cast<Node*>(raw); }
    PartialNode() {
        Node* n = node();
        new (&n->id_) PeerId(); n->id_[0] = 0x5A;
        new (&n->config_) Config();
        new (&n->scheduler_mutex_) std::recursive_mutex();
        new (&n->manifest_cache_) decltype(n->manifest_cache_)();
        new (&n->pending_chunk_fetches_) decltype(n->pending_chunk_fetches_)();
        new (&n->active_peer_requests_) decltype(n->active_peer_requests_)();
        new (&n->chunk_store_) ChunkStore(Config{});
        new (&n->dht_) KademliaTable(n->id_);
    }
};
}
// one replica import: manifest with nshards shards (indices symbolic in 1..3, values concrete), symbolic threshold, symbolic expiry,
// symbolic ciphertext of `len` bytes and a symbolic content hash
extern "C" void h_c11_receive(unsigned long nshards, unsigned long len) {
    PartialNode pn; Node* n = pn.node();
    n->config_.min_manifest_ttl = std::chrono::seconds(2); n->config_.max_manifest_ttl = std::chrono::seconds(40);
    verif_env::g_steady_ns = 9000 * kNs; verif_env::g_system_ns = 500 * kNs;
    g_manifest = protocol::Manifest{}; g_manifest.chunk_id[0] = 0xC1; g_manifest.chunk_id[1] = 0x17;
    nondet_bytes(g_manifest.chunk_hash.data(), 32, "chunk_hash"); for (int i = 0; i < 12; ++i) g_manifest.nonce.bytes[i] = static_cast<std::uint8_t>(0xA0 + i);   // concrete nonce: the keystream is then concrete (ChaCha20 itself is C09)
    g_manifest.threshold = nondet_u8("threshold");
    // optional manifest metadata is symbolic too: none of it may stand in for the content hash
    g_manifest.security.has_attestation_digest = nondet_bool("has_attestation_digest");
    const std::uint8_t life = nondet_u8("remaining_s") & 63;
    g_manifest.expires_at = std::chrono::system_clock::time_point(std::chrono::nanoseconds((500 + static_cast<long long>(life)) * kNs));
    for (unsigned long i = 0; i < nshards; ++i) {
        protocol::KeyShard s{}; std::uint8_t idx = nondet_u8("shard_index"); verif_assume(idx >= 1 && idx <= 3);
        s.index = static_cast<std::uint8_t>(verif_concretize(idx, 4));
        for (std::size_t b = 0; b < 32; ++b) s.value[b] = static_cast<std::uint8_t>(0x31 + 7 * i + b);
        g_manifest.shards.push_back(s);
    }
    g_decodable = true; g_broadcasts = 0; g_seed_notes = 0;
    ChunkData cipher(len); if (len) nondet_bytes(cipher.data(), len, "ciphertext");
    const ChunkData given = cipher;
    // the attestation digest is "the digest of what this ciphertext decrypts to under the manifest's shares (if they combine), XOR a
    // symbolic difference": an input like any other, phrased so that counterexamples replay with the real SHA-256
    {
        std::array<std::uint8_t, 32> att{};
        try {
            std::vector<crypto::ShamirShare> sh; for (const auto& s : g_manifest.shards) { crypto::ShamirShare x{}; x.index = s.index; x.value = s.value; sh.push_back(x); }
            crypto::Key k{}; k.bytes = crypto::Shamir::combine(sh, g_manifest.threshold);
            const auto p = crypto::CryptoManager::decrypt_with_key(k, g_manifest.chunk_id, std::span<const std::uint8_t>(given), g_manifest.nonce);
            if (p.has_value()) att = crypto::Sha256::digest(std::span<const std::uint8_t>(*p));
        } catch (const std::exception&) {}
        std::uint8_t delta[32]; nondet_bytes(delta, 32, "attestation_difference");
        for (std::size_t i = 0; i < 32; ++i) g_manifest.security.attestation_digest[i] = static_cast<std::uint8_t>(att[i] ^ delta[i]);
    }
    const auto got = n->receive_chunk("eph://m", std::move(cipher));          // an exception escaping here is reported by the engine (C35)
    const auto rec = n->chunk_store_.get_record(g_manifest.chunk_id);
    const auto shards = n->dht_.shard_record(g_manifest.chunk_id);
    const auto providers = n->dht_.find_providers(g_manifest.chunk_id);
    const bool cached = n->manifest_cache_.find(chunk_id_to_string(g_manifest.chunk_id)) != n->manifest_cache_.end();
    if (got.has_value()) {
        const auto h = crypto::Sha256::digest(std::span<const std::uint8_t>(*got));
        verif_assert(h == g_manifest.chunk_hash, "C11: a replica is returned only if its decryption hashes to the manifest's content hash");
        verif_assert(rec.has_value() && rec->data == given && rec->encrypted, "C11: the bytes held for the chunk are exactly the ciphertext that was imported");
        if (rec.has_value()) verif_assert(rec->expires_at.time_since_epoch().count() - 9000 * kNs <= static_cast<long long>(life) * kNs, "C03: a replica copy expires no later than the manifest");
        if (!providers.empty()) verif_assert(providers[0].expires_at.time_since_epoch().count() - 9000 * kNs <= static_cast<long long>(life) * kNs, "C03: the self-announcement for a replica expires no later than the manifest");
        verif_reach("imported");
    } else {
        verif_assert(!rec.has_value() && providers.empty() && !shards.has_value() && !cached && g_broadcasts == 0 && g_seed_notes == 0, "C11: a replica that is not accepted is never stored, announced or cached");
        verif_reach("refused");
    }
}
// round trip: a symbolic plaintext of `len` bytes is encrypted the way store_chunk does (CryptoManager::encrypt_with_key under the chunk
// id and nonce), its key travels as a single threshold-1 share, the content hash is that of the plaintext; importing the ciphertext with
// that manifest must return exactly the plaintext. idv picks the first four chunk-id bytes (= the initial ChaCha20 block counter):
// 0 ordinary, 1 ff ff ff ff (the counter wraps inside the first block range), 2 fe ff ff ff, 3 all four symbolic.
extern "C" void h_c11_roundtrip(unsigned long len, unsigned long idv) {
    PartialNode pn; Node* n = pn.node();
    n->config_.min_manifest_ttl = std::chrono::seconds(2); n->config_.max_manifest_ttl = std::chrono::seconds(40);
    verif_env::g_steady_ns = 9000 * kNs; verif_env::g_system_ns = 500 * kNs;
    g_manifest = protocol::Manifest{};
    for (std::size_t i = 0; i < 32; ++i) g_manifest.chunk_id[i] = static_cast<std::uint8_t>(0x40 + i);
    if (idv == 1 || idv == 2) { g_manifest.chunk_id[0] = idv == 1 ? 0xFF : 0xFE; g_manifest.chunk_id[1] = g_manifest.chunk_id[2] = g_manifest.chunk_id[3] = 0xFF; }
    if (idv == 3) nondet_bytes(g_manifest.chunk_id.data(), 4, "chunk_id_prefix");
    for (int i = 0; i < 12; ++i) g_manifest.nonce.bytes[i] = static_cast<std::uint8_t>(0xA0 + i);
    crypto::Key key{}; for (std::size_t i = 0; i < 32; ++i) key.bytes[i] = static_cast<std::uint8_t>(0x11 + 3 * i);
    ChunkData plain(len); if (len) nondet_bytes(plain.data(), len, "plaintext");
    const auto ct = crypto::CryptoManager::encrypt_with_key(key, g_manifest.chunk_id, plain);   // draws the nonce from the (modelled) random device
    g_manifest.nonce = ct.nonce;
    g_manifest.chunk_hash = crypto::Sha256::digest(std::span<const std::uint8_t>(plain));
    g_manifest.threshold = 1; g_manifest.total_shares = 1;
    { protocol::KeyShard s{}; s.index = 1; s.value = key.bytes; g_manifest.shards.push_back(s); }
    g_manifest.expires_at = std::chrono::system_clock::time_point(std::chrono::nanoseconds((500 + 20) * kNs));
    g_decodable = true; g_broadcasts = 0; g_seed_notes = 0;
    const auto got = n->receive_chunk("eph://m", ChunkData(ct.data));
    verif_assert(got.has_value(), "C11: content stored under a manifest is recovered from its replica (round trip)");
    if (got.has_value()) verif_assert(*got == plain, "C11: the recovered bytes are exactly the stored plaintext");
    verif_reach("roundtrip");
}
