// Harness unit for Node::perform_handshake on a PARTIAL Node (C20). perform_handshake, make_handshake_material and the PoW digest
// helpers are lifted textually from the current core/Node.cpp; KeyManager, KeyExchange and ReputationManager are the real units.
// SessionManager::register_peer_key (sockets/threads behind it) is a recording stub. SHA-256/HMAC: uninterpreted in the engine,
// real natively. Histories use PoW difficulty 0 (every nonce valid) so that counterexamples replay natively; the PoW gate itself
// is decided in job pow-gate with the digest abstracted.
#include "stdmodels.h"
#include <atomic>
#define private public
#include "ephemeralnet/core/Node.hpp"
#undef private
#include "src/network/KeyExchange.cpp"
#include "src/network/KeyManager.cpp"
#include "src/network/ReputationManager.cpp"
#ifdef VERIF_NATIVE
#include "src/crypto/Sha256.cpp"
#include "src/crypto/HmacSha256.cpp"
#else
namespace ephemeralnet::crypto {
Sha256::Sha256() {}
static std::uint8_t g_sha_buf[256]; static std::size_t g_sha_len = 0;
void Sha256::update(std::span<const std::uint8_t> data) { for (auto b : data) { if (g_sha_len >= sizeof g_sha_buf) verif_abort(); g_sha_buf[g_sha_len++] = b; } }
std::array<std::uint8_t, 32> Sha256::finalize() {
    std::array<std::uint8_t, 32> out{}; std::uint8_t in[128] = {0};
    if (g_sha_len > 127) verif_abort();
    in[0] = static_cast<std::uint8_t>(g_sha_len); for (std::size_t i = 0; i < g_sha_len; ++i) in[1 + i] = g_sha_buf[i];
    g_sha_len = 0;
    verif_uf("sha256_msg", in, 128, out.data(), 32);
    return out;
}
std::array<std::uint8_t, 32> Sha256::digest(std::span<const std::uint8_t> data) { Sha256 h; h.update(data); return h.finalize(); }
std::array<std::uint8_t, 32> HmacSha256::compute(std::span<const std::uint8_t> key, std::span<const std::uint8_t> data) {
    std::array<std::uint8_t, 32> out{}; std::uint8_t in[48] = {0};
    if (key.size() != 32 || data.size() > 16) verif_abort();
    for (std::size_t i = 0; i < 32; ++i) in[i] = key[i];
    for (std::size_t i = 0; i < data.size(); ++i) in[32 + i] = data[i];
    verif_uf(data.size() == 8 ? "hmac_k32_d8" : "hmac_k32_d16", in, 48, out.data(), 32);
    return out;
}
}
#endif
namespace { unsigned g_registered_keys = 0; std::array<std::uint8_t, 32> g_last_registered{}; ephemeralnet::PeerId g_last_registered_peer{}; }
void ephemeralnet::network::SessionManager::register_peer_key(const PeerId& peer_id, const std::array<std::uint8_t, 32>& key) { ++g_registered_keys; g_last_registered = key; g_last_registered_peer = peer_id; }
#include <algorithm>
namespace ephemeralnet {
namespace {
#include SNIP_BE_BYTES
#include SNIP_UPDATE_SPAN
#include SNIP_UPDATE_PREFIXED
#include SNIP_CLZ
#include SNIP_HS_DIGEST
#ifdef VERIF_POW_STUB
// a stand-in PoW predicate: perform_handshake must treat the predicate as a pure function of (claimed peer, this node, offered key, nonce,
// difficulty) - whatever that function is. This one accepts a quarter of the (key, nonce) pairs. (The real predicate is decided in C19.)
bool handshake_pow_valid(const PeerId&, const PeerId&, std::uint32_t initiator_public, std::uint64_t nonce, std::uint8_t difficulty) {
    return difficulty == 0 || ((initiator_public ^ static_cast<std::uint32_t>(nonce) ^ static_cast<std::uint32_t>(nonce >> 32)) & 3u) == 0;
}
#else
#include SNIP_HS_POW_VALID
#endif
#include SNIP_MATERIAL
#include SNIP_AUTO
}
#include SNIP_PERFORM_HANDSHAKE
#ifdef VERIF_RACE
} namespace ephemeralnet::protocol { bool is_supported_message_version(std::uint8_t v) noexcept { return v >= kMinimumMessageVersion && v <= kCurrentMessageVersion; } }   // as in protocol/Message.cpp (the codec is C15/C16)
namespace ephemeralnet { namespace { using SchedulerLock = std::unique_lock<std::recursive_mutex>; }
#include SNIP_VERSION_SUPPORTED
#include SNIP_PREFERRED_VERSION
#include SNIP_ROTATE_SESSION_KEYS
#include SNIP_SESSION_KEY
#include SNIP_SESSION_SHARED_KEY
#include SNIP_NOTE_VERSION
#include SNIP_OUTBOUND_VERSION
#endif
}
// Engine S: the Diffie-Hellman secret (modular exponentiation of a symbolic base) is an uninterpreted function of (private, public)
extern "C" void h_uf_shared_secret(ephemeralnet::crypto::Key* out, std::uint32_t priv, std::uint32_t pub) {
    std::uint8_t in[8] = {static_cast<std::uint8_t>(priv), static_cast<std::uint8_t>(priv >> 8), static_cast<std::uint8_t>(priv >> 16), static_cast<std::uint8_t>(priv >> 24), static_cast<std::uint8_t>(pub), static_cast<std::uint8_t>(pub >> 8), static_cast<std::uint8_t>(pub >> 16), static_cast<std::uint8_t>(pub >> 24)};
    new (out) ephemeralnet::crypto::Key();
    verif_uf("dh_secret", in, 8, out->bytes.data(), 32);
}
using namespace ephemeralnet;
namespace {
constexpr long long kNs = 1000000000LL;
template <class N> void init_handshake_mutex(N* n) { if constexpr (requires { n->handshake_mutex_; }) new (&n->handshake_mutex_) std::decay_t<decltype(n->handshake_mutex_)>(); }
struct PartialNode {
    alignas(Node) unsigned char raw[sizeof(Node)];
    Node* node() { return reinterpret_cast<Node*>(raw); }
    PartialNode() {
        Node* n = node();
        new (&n->id_) PeerId(); n->id_[0] = 0x77; n->id_[31] = 0x01;
        new (&n->config_) Config();
        new (&n->key_manager_) network::KeyManager(std::chrono::seconds(300));
        new (&n->reputation_) network::ReputationManager();
        new (&n->handshake_state_) decltype(n->handshake_state_)();
        init_handshake_mutex(n);   // present once handshake_state_ has its own lock
        new (&n->pow_counters_) Node::PowCounters();
        n->identity_scalar_ = 12345u; n->identity_public_ = network::KeyExchange::compute_public(12345u);
    }
};
PeerId remote_id() { PeerId p{}; p[0] = 0x42; p[31] = 0x09; return p; }
bool key_ok(std::uint32_t k) { return k > 1u && k < 2147483647u; }
}
// k inbound handshakes of ONE claimed peer with symbolic public keys, nonces and clock gaps; PoW difficulty 0.
extern "C" void h_c20_history(unsigned long k) {
    PartialNode pn; Node* n = pn.node();
    n->config_.handshake_pow_difficulty = 0;
    const std::uint8_t cooldown = nondet_u8("cooldown_s") & 15; n->config_.handshake_cooldown = std::chrono::seconds(cooldown);
    verif_env::start_clock();
    for (unsigned long i = 0; i < k; ++i) {
        verif_env::advance_clock();
        const std::uint32_t pub = nondet_u32("offered_public"); const std::uint64_t nonce = nondet_u64("nonce");
        const unsigned regs_before = g_registered_keys; const int score_before = n->reputation_.score(remote_id());
        const auto key_before = n->key_manager_.current_key(remote_id());
        const bool accepted = n->perform_handshake(remote_id(), pub, nonce);
        if (accepted) {
            verif_assert(key_ok(pub), "C20: a handshake is accepted only if the offered public key is valid");
            verif_reach("accepted");
        } else {
            verif_assert(g_registered_keys == regs_before, "C20: a rejected handshake registers no session key");
            verif_assert(n->key_manager_.current_key(remote_id()) == key_before, "C20: a rejected handshake leaves existing keys untouched");
            verif_assert(n->reputation_.score(remote_id()) < score_before || score_before <= -100, "C20: a rejected handshake lowers the claimed peer's reputation");
            verif_reach("rejected");
        }
    }
}
// one inbound handshake with symbolic difficulty: accepted exactly when the key is valid and the lifted PoW predicate holds
extern "C" void h_c20_pow_gate(unsigned long k) {
    PartialNode pn; Node* n = pn.node();
    const std::uint8_t difficulty = nondet_u8("difficulty"); verif_assume(difficulty <= 24);
    n->config_.handshake_pow_difficulty = difficulty;
    const std::uint8_t cooldown = nondet_u8("cooldown_s") & 15; n->config_.handshake_cooldown = std::chrono::seconds(cooldown);
    verif_env::start_clock();
    if (k == 0) k = 1;
    if (k > 1) verif_assume(difficulty == 0 || difficulty == 8);      // histories (not registered: two handshakes with the PoW gate exceed the budget)      // histories: three representative difficulties (the full range is the one-handshake job)
    for (unsigned long i = 0; i < k; ++i) {
        if (i) verif_env::advance_clock();
        const std::uint32_t pub = nondet_u32("offered_public"); const std::uint64_t nonce = nondet_u64("nonce");
        const unsigned regs_before = g_registered_keys;
        const bool accepted = n->perform_handshake(remote_id(), pub, nonce);
        const bool pow_ok = handshake_pow_valid(remote_id(), n->id_, pub, nonce, difficulty);
        verif_assert(accepted == (key_ok(pub) && pow_ok), "C20: accepted exactly when the key is valid and the PoW nonce is valid for (claimed peer, this node, offered key) - for every handshake of a history, inside or outside the cooldown");
        if (accepted) { verif_assert(g_registered_keys == regs_before + 1 && g_last_registered_peer == remote_id(), "C20: acceptance registers one session key for the claimed peer"); verif_reach("accepted"); }
        else { verif_assert(g_registered_keys == regs_before, "C20: rejection registers nothing"); verif_reach("rejected"); }
    }
}
#ifdef VERIF_POW_STUB
// histories of k handshakes with the PoW gate closed for three quarters of the (key, nonce) pairs (stand-in predicate above): every
// handshake - first, repeated inside the cooldown, repeated after it, with the same or another key or nonce - is accepted exactly when
// the key is valid and the predicate holds for the offered (key, nonce)
extern "C" void h_c20_history_pow(unsigned long k) {
    PartialNode pn; Node* n = pn.node();
    n->config_.handshake_pow_difficulty = 8;
    const std::uint8_t cooldown = nondet_u8("cooldown_s") & 15; n->config_.handshake_cooldown = std::chrono::seconds(cooldown);
    verif_env::start_clock();
    for (unsigned long i = 0; i < k; ++i) {
        verif_env::advance_clock();
        const std::uint32_t pub = nondet_u32("offered_public"); const std::uint64_t nonce = nondet_u64("nonce");
        const unsigned regs_before = g_registered_keys;
        const bool accepted = n->perform_handshake(remote_id(), pub, nonce);
        const bool pow_ok = handshake_pow_valid(remote_id(), n->id_, pub, nonce, 8);
        verif_assert(accepted == (key_ok(pub) && pow_ok), "C20: every handshake of a history is accepted exactly when the offered key is valid and the PoW predicate holds for the offered (key, nonce)");
        if (!accepted) verif_assert(g_registered_keys == regs_before, "C20: a rejected handshake registers no session key");
        verif_reach(accepted ? "accepted" : "rejected");
    }
}
#endif
#ifdef VERIF_RACE
#include <mutex>
#include <thread>
// ---------------------------------------------------------------- C36: lock discipline on the key / handshake state of Node
// Thread roles as in the daemon: the transport accept thread runs perform_handshake (via handle_transport_handshake) with no lock; a
// session reader thread looks the session key up (session_shared_key) with no lock; the serve loop runs tick -> rotate_session_keys and the
// control handlers run session_key, both under the node mutex of main.cpp. Every access to key_manager_, handshake_state_ and reputation_
// made in a role is logged with the set of mutexes held; the driver then requires a common mutex for every pair of roles that can run
// concurrently and touch the same member, at least one of them writing.
namespace { std::mutex g_node_mutex; }
extern "C" void h_c36_locksets(unsigned long rounds) {
    PartialNode pn; Node* n = pn.node();
    n->config_.handshake_pow_difficulty = 0; n->config_.handshake_cooldown = std::chrono::seconds(nondet_u8("cooldown_s") & 15);
    verif_env::start_clock();
    verif_lock_name(&g_node_mutex, "node_mutex"); new (&n->scheduler_mutex_) std::recursive_mutex(); verif_lock_name(&n->scheduler_mutex_, "scheduler_mutex_");
    verif_watch(&n->key_manager_, sizeof n->key_manager_, "Node::key_manager_");
    verif_watch(&n->handshake_state_, sizeof n->handshake_state_, "Node::handshake_state_");
    verif_watch(&n->reputation_, sizeof n->reputation_, "Node::reputation_");
    new (&n->peer_message_versions_) decltype(n->peer_message_versions_)(); verif_watch(&n->peer_message_versions_, sizeof n->peer_message_versions_, "Node::peer_message_versions_");
    n->key_manager_.~KeyManager(); new (&n->key_manager_) network::KeyManager(std::chrono::seconds(2));      // rotations become due within the horizon
    // a session exists already (so that rotation and look-ups have something to work on)
    (void)n->perform_handshake(remote_id(), 7, 1);
    for (unsigned long round = 0; round < rounds; ++round) {
        verif_env::advance_clock();
        verif_context("accept-thread");
        (void)n->perform_handshake(remote_id(), nondet_u32("offered_public"), nondet_u64("nonce"));
        verif_context("reader-thread");
        (void)n->session_shared_key(remote_id());
        n->note_peer_message_version(nondet_bool("known_peer") ? remote_id() : n->id_, nondet_u8("message_version") & 7);      // handle_transport_message, every inbound message
        (void)n->outbound_message_version_for(remote_id());
        verif_context("tick-thread");
        { std::scoped_lock lock(g_node_mutex); n->rotate_session_keys(std::chrono::steady_clock::now()); }
        // the serve loop also handshakes: tick -> process_pending_fetches -> dispatch_pending_fetch -> request_chunk -> ensure_bootstrap_handshake
        // -> perform_handshake, under the node mutex and the scheduler mutex
        { std::scoped_lock lock(g_node_mutex); std::unique_lock<std::recursive_mutex> sched(n->scheduler_mutex_); (void)n->perform_handshake(remote_id(), nondet_u32("bootstrap_public"), nondet_u64("bootstrap_nonce")); }
        verif_context("control-thread");
        { std::scoped_lock lock(g_node_mutex); (void)n->session_key(remote_id()); }
        verif_context("");
    }
    verif_reach("roles-run");
}
// native confirmation: the same roles as real threads under ThreadSanitizer
extern "C" void h_c36_tsan(unsigned long) {
    PartialNode pn; Node* n = pn.node();
    n->config_.handshake_pow_difficulty = 0; n->config_.handshake_cooldown = std::chrono::seconds(0);
    n->key_manager_.~KeyManager(); new (&n->key_manager_) network::KeyManager(std::chrono::seconds(1));
    new (&n->scheduler_mutex_) std::recursive_mutex(); new (&n->peer_message_versions_) decltype(n->peer_message_versions_)();
    (void)n->perform_handshake(remote_id(), 7, 1);
    std::thread accept([&] { for (int i = 0; i < 400; ++i) (void)n->perform_handshake(remote_id(), 7 + static_cast<std::uint32_t>(i % 5), 1); });
    auto reader_role = [&](unsigned who) { for (int i = 0; i < 400; ++i) { (void)n->session_shared_key(remote_id()); PeerId p = remote_id(); p[5] = static_cast<std::uint8_t>(who * 100 + i % 50); n->note_peer_message_version(p, static_cast<std::uint8_t>(1 + i % 4)); (void)n->outbound_message_version_for(remote_id()); } };
    std::thread reader1(reader_role, 0u), reader2(reader_role, 1u);
    // the serve loop: every rotation is due (the tick timestamp runs ahead by the rotation interval), then a bootstrap handshake
    std::thread serve([&] { for (int i = 0; i < 400; ++i) { std::scoped_lock lock(g_node_mutex); n->rotate_session_keys(std::chrono::steady_clock::now() + std::chrono::seconds(2 * (i + 1))); (void)n->session_key(remote_id()); std::unique_lock<std::recursive_mutex> sched(n->scheduler_mutex_); (void)n->perform_handshake(remote_id(), 9 + static_cast<std::uint32_t>(i % 3), 1); } });
    accept.join(); reader1.join(); reader2.join(); serve.join();
    std::printf("TSAN-RUN-DONE\n");
}
#endif
