// Harness unit for manifest-derived lifetimes (C03): manifest_ttl / enforce_manifest_ttl / validate_shards and Node::ingest_manifest,
// lifted from the current core/Node.cpp onto a PARTIAL Node whose dht_ is the real KademliaTable. protocol::decode_manifest is
// supplied by the harness (it returns the manifest the harness built, or throws): the codec itself is C17/C18.
#include "stdmodels.h"
#include "rbtree_models.h"
#include <atomic>
#define private public
#include "ephemeralnet/core/Node.hpp"
#undef private
#include "src/dht/KademliaTable.cpp"
namespace { ephemeralnet::protocol::Manifest g_manifest; bool g_decodable = true; unsigned g_plans = 0; }
namespace ephemeralnet::protocol {
Manifest decode_manifest(const std::string&) { if (!g_decodable) throw std::invalid_argument("undecodable"); return g_manifest; }
}
namespace ephemeralnet {
namespace {
using SchedulerLock = std::unique_lock<std::recursive_mutex>;
#include SNIP_K_MIN_TTL
#include SNIP_ENFORCE_TTL
#include SNIP_MANIFEST_TTL
#include SNIP_VALIDATE_SHARDS
#include SNIP_AUTO
}
void Node::update_swarm_plan(const protocol::Manifest&) { ++g_plans; }
#include SNIP_INGEST
}
using namespace ephemeralnet;
namespace {
constexpr long long kNs = 1000000000LL;
struct PartialNode {
    alignas(Node) unsigned char raw[sizeof(Node)];
    Node* node() { return reinterpret_cast<Node*>(raw); }
    PartialNode() {
        Node* n = node();
        new (&n->config_) Config();
        new (&n->scheduler_mutex_) std::recursive_mutex();
        new (&n->manifest_cache_) decltype(n->manifest_cache_)();
        PeerId self{}; self[0] = 0x5A;
        new (&n->dht_) KademliaTable(self);
    }
};
}
// kernel: manifest_ttl for every expiry / wall-clock reading / sanitised window
extern "C" void h_c03_ttl_kernel(unsigned long) {
    Config cfg{};
    const std::uint32_t mn = nondet_u32("min_ttl_s"), mx = nondet_u32("max_ttl_s");
    verif_assume(mn >= 1 && mn <= mx && mx <= 86400);                 // the window sanitize_config produces (C02)
    cfg.min_manifest_ttl = std::chrono::seconds(mn); cfg.max_manifest_ttl = std::chrono::seconds(mx);
    const std::uint64_t wall_s = nondet_u64("wall_s"), exp_s = nondet_u64("expires_s");
    verif_assume(wall_s < (1ull << 33) && exp_s < (1ull << 33));
    const std::uint32_t wall_sub = nondet_u32("wall_sub_ns"), exp_sub = nondet_u32("expires_sub_ns");
    verif_assume(wall_sub < 1000000000u && exp_sub < 1000000000u);
    verif_env::g_system_ns = static_cast<long long>(wall_s) * kNs + wall_sub;
    protocol::Manifest m{}; m.expires_at = std::chrono::system_clock::time_point(std::chrono::nanoseconds(static_cast<long long>(exp_s) * kNs + exp_sub));
    const auto r = manifest_ttl(m, cfg);
    const long long remaining_ns = (static_cast<long long>(exp_s) * kNs + exp_sub) - verif_env::g_system_ns;
    if (r.has_value()) {
        verif_assert(remaining_ns > 0, "C03: an expired manifest is rejected");
        verif_assert(r->count() * kNs <= remaining_ns, "C03: the derived lifetime never extends beyond the manifest's own expiry");
        verif_assert(r->count() >= static_cast<long long>(mn) && r->count() <= static_cast<long long>(mx), "C03: the derived lifetime lies in [min TTL, max TTL] (a far-future expiry is capped)");
        verif_reach("accepted");
    } else {
        verif_assert(remaining_ns < (static_cast<long long>(mn) + 1) * kNs, "C03: only expired manifests or those with less than the minimum TTL left are rejected");
        verif_reach("rejected");
    }
}
// Node::ingest_manifest: state changes only on acceptance, and the key-share record then expires no later than the manifest
extern "C" void h_c03_ingest(unsigned long nshards) {
    PartialNode pn; Node* n = pn.node();
    const std::uint8_t mn = nondet_u8("min_ttl_s"), mx = nondet_u8("max_ttl_s");
    verif_assume(mn >= 1 && mn <= mx);
    n->config_.min_manifest_ttl = std::chrono::seconds(mn); n->config_.max_manifest_ttl = std::chrono::seconds(mx);
    verif_env::g_steady_ns = 9000 * kNs + static_cast<long long>(nondet_u8("steady_8ths") & 7) * verif_env::kEighth;
    // whole-second wall clock and expiry in this job (sub-second parts are covered for the arithmetic in job ttl-kernel)
    const std::uint32_t wall_s = nondet_u16("wall_s") & 0x3FF;
    verif_env::g_system_ns = static_cast<long long>(wall_s) * kNs;
    const std::uint32_t exp_s = nondet_u16("expires_s") & 0x3FF;
    g_manifest = protocol::Manifest{}; g_manifest.chunk_id[0] = 0xC1; g_manifest.threshold = nondet_u8("threshold");
    g_manifest.expires_at = std::chrono::system_clock::time_point(std::chrono::nanoseconds(static_cast<long long>(exp_s) * kNs));
    for (unsigned long i = 0; i < nshards; ++i) { protocol::KeyShard s{}; s.index = static_cast<std::uint8_t>(i + 1); g_manifest.shards.push_back(s); }
    const bool dec = nondet_bool("decodable"); g_decodable = verif_concretize(dec, 2); g_plans = 0;
    const bool ok = n->ingest_manifest("eph://x");
    const long long remaining_ns = g_manifest.expires_at.time_since_epoch().count() - verif_env::g_system_ns;
    const auto rec = n->dht_.shard_record(g_manifest.chunk_id);
    const bool cached = n->manifest_cache_.find(chunk_id_to_string(g_manifest.chunk_id)) != n->manifest_cache_.end();
    if (ok) {
        verif_assert(g_decodable && g_manifest.threshold > 0 && nshards >= g_manifest.threshold, "C03: only a decodable manifest whose shares meet its threshold is ingested");
        verif_assert(remaining_ns >= static_cast<long long>(mn) * kNs, "C03: a manifest with less than the minimum TTL left is rejected");
        verif_assert(rec.has_value() && cached, "C03: an ingested manifest is cached together with its key shares");
        if (rec.has_value()) {
            const long long life_ns = rec->expires_at.time_since_epoch().count() - verif_env::g_steady_ns;
            verif_assert(life_ns <= remaining_ns, "C03: cached key shares expire no later than the manifest");
            verif_assert(life_ns <= static_cast<long long>(mx) * kNs, "C03: a far-future expiry is capped at the maximum TTL");
        }
        verif_reach("ingested");
    } else {
        verif_assert(!rec.has_value() && !cached && g_plans == 0, "C03: a rejected manifest changes no node state");
        verif_reach("rejected");
    }
}
