// Harness unit for the CLI's fetch output paths (C30). Two pieces of src/main.cpp are lifted textually from the current source:
//  - decrypt_chunk_with_manifest (transport / relay paths), run with the real Shamir, CryptoManager and ChaCha20;
//  - the lambda finalize_fetch (control-hint, control:// fallback and local-daemon paths), run inside a function that supplies the
//    variables it captures (resolved_output, decoded_manifest).
// In the engine std::ofstream and std::cout are source-level recording classes; natively the real ones run and the file is read back.
#include "stdmodels.h"
#include <filesystem>
#include <fstream>
#include <iostream>
#include <optional>
#include <span>
#include <string>
#include <vector>
#include <stdexcept>
#include "ephemeralnet/daemon/ControlPlane.hpp"
#include "ephemeralnet/protocol/Manifest.hpp"
#include "ephemeralnet/protocol/Message.hpp"
#include "ephemeralnet/crypto/Shamir.hpp"
#include "ephemeralnet/crypto/CryptoManager.hpp"
#include "src/crypto/Shamir.cpp"
#include "src/crypto/ChaCha20.cpp"
#include "src/crypto/CryptoManager.cpp"
namespace { unsigned g_rd = 0; }
void std::random_device::_M_init(const std::string&) {}
void std::random_device::_M_fini() {}
std::random_device::result_type std::random_device::_M_getval() { return 0x9E3779B9u * (++g_rd); }
#ifdef VERIF_NATIVE
#include "src/crypto/Sha256.cpp"
#else
#include "ephemeralnet/crypto/Sha256.hpp"
namespace ephemeralnet::crypto {
std::array<std::uint8_t, 32> Sha256::digest(std::span<const std::uint8_t> data) {
    std::array<std::uint8_t, 32> out{}; std::uint8_t in[8] = {0};
    if (data.size() > 7) verif_abort();
    in[0] = static_cast<std::uint8_t>(data.size()); for (std::size_t i = 0; i < data.size(); ++i) in[1 + i] = data[i];
    verif_uf("sha256_short", in, 8, out.data(), 32);
    return out;
}
}
namespace verif_io {
struct FileRec { bool opened = false; std::string bytes; } g_file;
struct OutFile {
    OutFile(const std::filesystem::path&, std::ios::openmode) { g_file.opened = true; g_file.bytes.clear(); }
    explicit operator bool() const { return true; }
    bool operator!() const { return false; }
    OutFile& write(const char* p, std::streamsize n) { g_file.bytes.append(p, static_cast<std::size_t>(n)); return *this; }
    OutFile& flush() { return *this; }
};
struct Console {
    template <class T> Console& operator<<(const T&) { return *this; }
    Console& operator<<(std::ostream& (*)(std::ostream&)) { return *this; }
};
inline Console g_console;
}
extern "C" void h_path_split_stub3(std::filesystem::path*) {}
#endif
namespace protocol = ephemeralnet::protocol;
struct CliException : std::runtime_error { using std::runtime_error::runtime_error; };
[[noreturn]] static void throw_cli_error(std::string code, std::string message, std::string = {}) { throw CliException(code + ": " + message); }
#include "ephemeralnet/security/StoreProof.hpp"
// the content-derived chunk id (SHA-256 of the payload), in case lifted code refers to it
namespace ephemeralnet::security { ChunkId derive_chunk_id(std::span<const std::uint8_t> data) { ChunkId id{}; const auto d = crypto::Sha256::digest(data); for (std::size_t i = 0; i < 32; ++i) id[i] = d[i]; return id; } }
namespace {
#include SNIP_AUTO
#include SNIP_DECRYPT
}
#ifndef VERIF_NATIVE
namespace std { using verif_ofstream_alias = verif_io::OutFile; inline verif_io::Console& verif_cout_alias = verif_io::g_console; }
#endif
// runs the lifted finalize_fetch lambda with the variables it captures
static void run_finalize(const std::filesystem::path& resolved_output_in, const std::optional<protocol::Manifest>& decoded_manifest_in, const ephemeralnet::daemon::ControlResponse& response) {
    const std::filesystem::path resolved_output = resolved_output_in;
    const std::optional<protocol::Manifest> decoded_manifest = decoded_manifest_in;
    (void)decoded_manifest;
#ifndef VERIF_NATIVE
#define ofstream verif_ofstream_alias
#define cout verif_cout_alias
#endif
#include SNIP_FINALIZE
#ifndef VERIF_NATIVE
#undef ofstream
#undef cout
#endif
    finalize_fetch(response);
}
using namespace ephemeralnet;
static protocol::Manifest make_manifest(unsigned long nshards) {
    protocol::Manifest m{}; m.chunk_id[0] = 0xC1; m.threshold = static_cast<std::uint8_t>(nshards);
    for (unsigned long i = 0; i < nshards; ++i) { protocol::KeyShard s{}; s.index = static_cast<std::uint8_t>(i + 1); for (std::size_t b = 0; b < 32; ++b) s.value[b] = static_cast<std::uint8_t>(0x31 + 7 * i + b); m.shards.push_back(s); }
    for (int i = 0; i < 12; ++i) m.nonce.bytes[i] = static_cast<std::uint8_t>(0xA0 + i);
    nondet_bytes(m.chunk_hash.data(), 32, "chunk_hash");
    return m;
}
// transport / relay path: the chunk payload a peer returned is only turned into plaintext when it hashes to the manifest's content hash
extern "C" void h_c30_decrypt(unsigned long nshards, unsigned long len) {
    const protocol::Manifest m = make_manifest(nshards);
    protocol::ChunkPayload payload{}; payload.chunk_id = m.chunk_id; payload.data.resize(len); if (len) nondet_bytes(payload.data.data(), len, "returned_bytes");
    const auto plain = decrypt_chunk_with_manifest(m, payload);
    if (plain.has_value()) { verif_assert(crypto::Sha256::digest(std::span<const std::uint8_t>(*plain)) == m.chunk_hash, "C30: bytes from a peer are accepted only if they hash to the manifest's content hash"); verif_reach("accepted"); }
    else verif_reach("refused");
}
// control paths: whatever a control endpoint (hint, control:// fallback, local daemon) returned is written only if it hashes to the content hash
extern "C" void h_c30_finalize(unsigned long len, unsigned long extra_header) {
    protocol::Manifest m = make_manifest(1);
    ephemeralnet::daemon::ControlResponse response{}; response.success = true; response.has_payload = true; response.fields["SIZE"] = "1";
    response.payload.resize(len); if (len) nondet_bytes(response.payload.data(), len, "returned_bytes");
    // the manifest's content hash and chunk id are "the digest of the delivered bytes XOR a symbolic difference" (any value, phrased so
    // that counterexamples replay with the real SHA-256); the endpoint may add any header of its own to the response
    {
        const auto d = crypto::Sha256::digest(std::span<const std::uint8_t>(response.payload));
        std::uint8_t dh[32], di[32]; nondet_bytes(dh, 32, "content_hash_difference"); nondet_bytes(di, 32, "chunk_id_difference");
        for (std::size_t i = 0; i < 32; ++i) { m.chunk_hash[i] = static_cast<std::uint8_t>(d[i] ^ dh[i]); m.chunk_id[i] = static_cast<std::uint8_t>(d[i] ^ di[i]); }
    }
    if (extra_header) {
        std::string key, value;
        for (int i = 0; i < 9; ++i) { const std::uint8_t c = nondet_u8("extra_header_key"); verif_assume(c >= 'A' && c <= 'Z'); key.push_back(static_cast<char>(c)); }
        for (int i = 0; i < 8; ++i) { const std::uint8_t c = nondet_u8("extra_header_value"); verif_assume(c >= 0x20 && c < 0x7f); value.push_back(static_cast<char>(c)); }
        response.fields[key] = value;
    }
#ifdef VERIF_NATIVE
    const char* wd = std::getenv("VERIF_WORK"); const std::filesystem::path out = std::filesystem::path(wd ? wd : ".") / "c30_out.bin"; std::filesystem::remove(out);
#else
    const std::filesystem::path out; verif_io::g_file = verif_io::FileRec{};
#endif
    bool failed = false;
    try { run_finalize(out, m, response); } catch (const CliException&) { failed = true; }
#ifdef VERIF_NATIVE
    const bool written = std::filesystem::exists(out);
    std::string bytes; if (written) { std::ifstream in(out, std::ios::binary); bytes.assign(std::istreambuf_iterator<char>(in), std::istreambuf_iterator<char>()); }
    std::filesystem::remove(out);
#else
    const bool written = verif_io::g_file.opened; const std::string bytes = verif_io::g_file.bytes;
#endif
    if (written) {
        verif_assert(bytes.size() == len && std::equal(bytes.begin(), bytes.end(), response.payload.begin(), [](char a, std::uint8_t b) { return static_cast<std::uint8_t>(a) == b; }), "C30: the file holds the delivered bytes");
        verif_assert(crypto::Sha256::digest(std::span<const std::uint8_t>(response.payload)) == m.chunk_hash, "C30: an output file is written only if its bytes hash to the manifest's content hash, whichever path delivered them");
        verif_reach("written");
    } else { verif_assert(failed, "C30: a path that delivers other bytes fails"); verif_reach("failed"); }
}
