// Native replay runtime: runs a harness entry point with the nondet values of a solver model.
// usage: replay_bin <entry> <valuesfile> [arg...]
// values file: one line per nondet symbol in creation order: "<name> <width> <decimal value>"
#include <cstdio>
#include <cstdlib>
#include <cstring>
#include <cstdint>
#include <string>
#include <vector>
#include <dlfcn.h>
#include <exception>
#include <typeinfo>
#include "../include/verif.h"

namespace {
struct Val { std::string name; unsigned width; unsigned long long v; };
std::vector<Val> g_vals; std::size_t g_pos = 0; int g_fail = 0;
unsigned long long next(const char* name, unsigned w) {
    if (g_pos >= g_vals.size()) { std::printf("REPLAY-MISMATCH out of values at %s\n", name ? name : "?"); std::fflush(stdout); std::_Exit(4); }
    const Val& x = g_vals[g_pos++];
    if (x.width != w) { std::printf("REPLAY-MISMATCH width %u vs %u at %s/%s\n", x.width, w, x.name.c_str(), name ? name : "?"); std::fflush(stdout); std::_Exit(4); }
    return x.v;
}
}
extern "C" {
std::uint8_t nondet_u8(const char* n) { return (std::uint8_t)next(n, 8); }
std::uint16_t nondet_u16(const char* n) { return (std::uint16_t)next(n, 16); }
std::uint32_t nondet_u32(const char* n) { return (std::uint32_t)next(n, 32); }
std::uint64_t nondet_u64(const char* n) { return (std::uint64_t)next(n, 64); }
bool nondet_bool(const char* n) { return next(n, 1) != 0; }
void nondet_bytes(void* p, std::size_t n, const char* name) { for (std::size_t i = 0; i < n; ++i) ((unsigned char*)p)[i] = (unsigned char)next(name, 8); }
void verif_assume(bool c) { if (!c) { std::printf("REPLAY-ASSUME-FALSE\n"); std::fflush(stdout); std::_Exit(5); } }
void verif_assert(bool c, const char* msg) { if (!c) { std::printf("ASSERT-FAIL %s\n", msg ? msg : ""); std::fflush(stdout); g_fail = 1; std::_Exit(1); } }
void verif_observe(const char* tag, std::uint64_t v) { std::printf("OBS %s %llu\n", tag, (unsigned long long)v); }
void verif_reach(const char* tag) { std::printf("REACH %s\n", tag); }
void verif_note(const char*) {}
std::uint64_t verif_concretize(std::uint64_t v, std::uint64_t) { return v; }
int verif_is_symbolic(std::uint64_t) { return 0; }
void verif_abort(void) { std::printf("VERIF-ABORT\n"); std::fflush(stdout); std::_Exit(6); }
bool verif_known(const char*, bool) { return false; }
void verif_depth_limit(std::uint64_t) {}
void verif_watch(const void*, std::size_t, const char*) {}
void verif_lock_name(const void*, const char*) {}
void verif_context(const char*) {}
void verif_uf(const char* n, const void*, std::size_t, void*, std::size_t) { std::printf("REPLAY-MISMATCH verif_uf %s reached natively\n", n); std::fflush(stdout); std::_Exit(4); }
}
int main(int argc, char** argv) {
    if (argc < 3) { std::fprintf(stderr, "usage: %s entry values [args]\n", argv[0]); return 2; }
    if (FILE* f = std::fopen(argv[2], "r")) {
        char name[256]; unsigned w; unsigned long long v;
        while (std::fscanf(f, "%255s %u %llu", name, &w, &v) == 3) g_vals.push_back({name, w, v});
        std::fclose(f);
    }
    void* sym = dlsym(RTLD_DEFAULT, argv[1]);
    if (!sym) { std::fprintf(stderr, "no entry %s\n", argv[1]); return 2; }
    unsigned long a[4] = {0, 0, 0, 0};
    for (int i = 3; i < argc && i < 7; ++i) a[i - 3] = std::strtoul(argv[i], nullptr, 0);
    try {
        ((void (*)(unsigned long, unsigned long, unsigned long, unsigned long))sym)(a[0], a[1], a[2], a[3]);
    } catch (const std::exception& e) {
        std::printf("UNCAUGHT %s\n", typeid(e).name()); std::fflush(stdout); return 7;
    } catch (...) {
        std::printf("UNCAUGHT unknown\n"); std::fflush(stdout); return 7;
    }
    std::printf("DONE\n");
    return 0;
}
