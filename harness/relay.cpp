// Harness unit for relay/RelayServer.cpp (C25 pairing / routing, C26 robustness and release). The whole unit is included; the event
// loop (epoll) and the socket calls are the harness: EventLoop::add/update/remove record, recv() plays back per-descriptor input
// queues (EAGAIN when empty, 0 once the peer has disconnected), send() captures per-descriptor output, close() records.
// Client sessions are created the way accept_new_clients() does (make_shared + sessions_.emplace), without accept()/listen().
#include "stdmodels.h"
#include <cerrno>
#include <sys/types.h>
#include <sys/socket.h>
#include <unistd.h>
#define private public
#include "ephemeralnet/relay/RelayServer.hpp"
#undef private
namespace {
constexpr int kMaxFd = 8;
std::string g_in[kMaxFd]; bool g_eof[kMaxFd]; std::string g_out[kMaxFd]; unsigned g_closed[kMaxFd]; unsigned g_loop_removed[kMaxFd];
}
extern "C" ssize_t recv(int fd, void* buf, size_t n, int) {
    if (fd < 0 || fd >= kMaxFd) { errno = EBADF; return -1; }
    if (g_in[fd].empty()) { if (g_eof[fd]) return 0; errno = EAGAIN; return -1; }
    const std::size_t k = n < g_in[fd].size() ? n : g_in[fd].size();
    for (std::size_t i = 0; i < k; ++i) static_cast<char*>(buf)[i] = g_in[fd][i];
    g_in[fd].erase(0, k); return static_cast<ssize_t>(k);
}
// back-pressure script per descriptor: each entry is how many bytes the next send() call accepts (0 = EAGAIN); empty = accept everything
namespace { int g_script[kMaxFd][4]; int g_script_len[kMaxFd]; int g_script_pos[kMaxFd]; }
extern "C" ssize_t send(int fd, const void* buf, size_t n, int) {
    if (fd < 0 || fd >= kMaxFd) { errno = EBADF; return -1; }
    std::size_t k = n;
    if (g_script_pos[fd] < g_script_len[fd]) { const int a = g_script[fd][g_script_pos[fd]++]; if (a == 0) { errno = EAGAIN; return -1; } if (static_cast<std::size_t>(a) < n) k = static_cast<std::size_t>(a); }
    g_out[fd].append(static_cast<const char*>(buf), k); return static_cast<ssize_t>(k);
}
extern "C" int close(int fd) { if (fd >= 0 && fd < kMaxFd) ++g_closed[fd]; return 0; }
namespace ephemeralnet::relay {
EventLoop::EventLoop() {}
EventLoop::~EventLoop() {}
void EventLoop::add(int, std::uint32_t, EventCallback) {}
void EventLoop::update(int, std::uint32_t) {}
void EventLoop::remove(int fd) { if (fd >= 0 && fd < kMaxFd) ++g_loop_removed[fd]; }
void EventLoop::run() {}
void EventLoop::stop() {}
}
#include "src/relay/RelayServer.cpp"
using namespace ephemeralnet; using namespace ephemeralnet::relay;
namespace {
const char* kX = "aaaaaaaaaaaaaaaaaaaaaaaaaaaaaaaaaaaaaaaaaaaaaaaaaaaaaaaaaaaaaaaa";      // the registrant's peer id (64 hex characters)
const char* kY = "eeeeeeeeeeeeeeeeeeeeeeeeeeeeeeeeeeeeeeeeeeeeeeeeeeeeeeeeeeeeeeee";      // a second id the registrant may switch to
const char* kIdB = "1111111111111111111111111111111111111111111111111111111111111111";
const char* kIdC = "2222222222222222222222222222222222222222222222222222222222222222";
using Session = std::shared_ptr<RelayServer::ClientSession>;
void reset_env() { for (int i = 0; i < kMaxFd; ++i) { g_in[i].clear(); g_out[i].clear(); g_eof[i] = false; g_closed[i] = 0; g_loop_removed[i] = 0; g_script_len[i] = 0; g_script_pos[i] = 0; } }
Session add_client(RelayServer& srv, int fd) { auto s = std::make_shared<RelayServer::ClientSession>(fd); srv.sessions_.emplace(fd, s); return s; }
void deliver(RelayServer& srv, const Session& s, const std::string& bytes) {
    if (s->closing) return;
    g_in[s->fd] += bytes; srv.on_client_event(s, EventLoop::kEventReadable | EventLoop::kEventWritable);
}
void disconnect(RelayServer& srv, const Session& s) { if (s->closing) return; g_eof[s->fd] = true; srv.on_client_event(s, EventLoop::kEventReadable); }
void flush(RelayServer& srv, const Session& s) { if (!s->closing) srv.on_client_event(s, EventLoop::kEventWritable); }
// what a client has received so far = flushed output + what is still queued
std::string received(const Session& s) { return g_out[s->fd] + s->write_buffer; }
void check_pairing(RelayServer& srv, const Session* all, int n) {
    for (int i = 0; i < n; ++i) {
        const Session& a = all[i]; if (a->closing) continue;
        const auto p = a->partner.lock();
        if (p && (a->state == RelayServer::SessionState::AwaitingIdentity || a->state == RelayServer::SessionState::Bridged)) {
            const auto back = p->partner.lock();
            verif_assert(back && back.get() == a.get(), "C25: pairings are symmetric (a connector's partner points back at it)");
            verif_assert(!p->closing, "C25: when one side of a bridge is gone the other side is disconnected");
        }
        int claimants = 0;
        for (int j = 0; j < n; ++j) { const Session& c = all[j]; if (c->closing || c.get() == a.get()) continue; const auto q = c->partner.lock(); if (q && q.get() == a.get() && (c->state == RelayServer::SessionState::AwaitingIdentity || c->state == RelayServer::SessionState::Bridged)) ++claimants; }
        verif_assert(claimants <= 1, "C25: a registered peer is claimed by at most one connector at a time");
    }
    (void)srv;
}
}
// A registers as X; B and C are connectors. k events chosen symbolically from each client's repertoire.
extern "C" void h_c25_pairing(unsigned long k, unsigned long first_event) {
    reset_env();
    EventLoop loop; RelayServer srv(loop, RelayServerConfig{});
    Session all[3] = {add_client(srv, 3), add_client(srv, 4), add_client(srv, 5)};
    const Session &A = all[0], &B = all[1], &C = all[2];
    // streamB / streamC: every byte a connector sent since its CONNECT was accepted (the first 32 are its identity, the rest data);
    // sentA: bytes the registrant sent while bridged
    std::string sentA, streamB, streamC;
    std::string identityB(32, '{'), identityC(32, '}');     // bytes that occur in no protocol reply
    auto from_connector = [&](const Session& S, std::string& stream, const std::string& bytes) {
        const bool counts = !S->closing && (S->state == RelayServer::SessionState::AwaitingIdentity || S->state == RelayServer::SessionState::Bridged);
        deliver(srv, S, bytes);
        if (counts) stream += bytes;
    };
    for (unsigned long i = 0; i < k; ++i) {
        std::uint8_t ev = nondet_u8("event"); verif_assume(ev < 12); if (i == 0) verif_assume(ev == first_event);     // the first event is fixed per job (fan-out over the cores)
        ev = static_cast<std::uint8_t>(verif_concretize(ev, 16));
        switch (ev) {
            case 0: deliver(srv, A, std::string("REGISTER ") + kX + "\n"); break;
            case 1: { const bool was = A->state == RelayServer::SessionState::Bridged && !A->closing; const std::string d = "@" + std::string(1, static_cast<char>('A' + i)); deliver(srv, A, d); if (was) sentA += d; break; }
            case 2: disconnect(srv, A); break;
            case 3: from_connector(B, streamB, std::string("CONNECT ") + kIdB + " " + kX + "\n"); break;
            case 4: from_connector(B, streamB, (B->state == RelayServer::SessionState::AwaitingIdentity && streamB.empty() ? identityB : std::string()) + "#" + std::to_string(i)); break;
            case 5: disconnect(srv, B); break;
            case 6: from_connector(C, streamC, std::string("CONNECT ") + kIdC + " " + kX + "\n"); break;
            case 7: from_connector(C, streamC, (C->state == RelayServer::SessionState::AwaitingIdentity && streamC.empty() ? identityC : std::string()) + "%" + std::to_string(i)); break;
            case 8: disconnect(srv, C); break;
            case 9: deliver(srv, A, std::string("REGISTER ") + kY + "\n"); break;
            case 10: from_connector(B, streamB, std::string("CONNECT ") + kIdB + " " + kY + "\n"); break;
            default: from_connector(C, streamC, std::string("CONNECT ") + kIdC + " " + kY + "\n"); break;
        }
        for (const auto& s : all) flush(srv, s);
        check_pairing(srv, all, 3);
    }
    // routing: once a connector's stream reached 32 bytes its bridge exists: the registrant received "BEGIN <id>\n" followed by exactly that stream
    const std::string ra = received(A), rb = received(B), rc = received(C);
    const std::string beginB = std::string("BEGIN ") + kIdB + "\n", beginC = std::string("BEGIN ") + kIdC + "\n";
    const auto pb = ra.find(beginB), pc = ra.find(beginC);
    if (pb != std::string::npos) { verif_assert(streamB.size() >= 32, "C25: no bridge is announced before the connector's identity arrived"); verif_assert(ra.compare(pb + beginB.size(), streamB.size(), streamB) == 0, "C25: bytes a connector sends reach the registered peer in order and without loss"); verif_reach("bridged"); }
    if (pc != std::string::npos) { verif_assert(streamC.size() >= 32, "C25: no bridge is announced before the connector's identity arrived"); verif_assert(ra.compare(pc + beginC.size(), streamC.size(), streamC) == 0, "C25: bytes a connector sends reach the registered peer in order and without loss"); }
    // connectors receive only protocol replies and the registrant's bridged bytes - never the other connector's bytes
    for (char ch : rb) verif_assert(ch != '}' && ch != '%' && ch != '2', "C25: a connector never receives another connector's bytes");
    for (char ch : rc) verif_assert(ch != '{' && ch != '#' && ch != '1', "C25: a connector never receives another connector's bytes");
    if (!sentA.empty()) { const bool toB = rb.find(sentA.substr(0, 2)) != std::string::npos, toC = rc.find(sentA.substr(0, 2)) != std::string::npos; verif_assert(!(toB && toC), "C25: bytes of the registered peer reach only its bridge partner"); }
    verif_reach("history");
}
// C26: arbitrary bytes from two clients in up to three reads each, then disconnects in a symbolic order
extern "C" void h_c26_bytes(unsigned long len) {
    reset_env();
    EventLoop loop; RelayServer srv(loop, RelayServerConfig{});
    Session all[2] = {add_client(srv, 3), add_client(srv, 4)};
    for (int round = 0; round < 2; ++round) {
        for (int c = 0; c < 2; ++c) {
            std::string bytes; for (unsigned long i = 0; i < len; ++i) bytes.push_back(static_cast<char>(nondet_u8("byte")));
            deliver(srv, all[c], bytes);
        }
    }
    const bool first = nondet_bool("first_to_leave"); const int f = verif_concretize(first, 2) ? 1 : 0;
    disconnect(srv, all[f]); disconnect(srv, all[1 - f]);
    verif_assert(srv.sessions_.empty(), "C26: once every client has disconnected the relay holds no client sessions");
    verif_assert(srv.registered_.empty(), "C26: ... and no registrations");
    verif_assert(g_closed[3] == 1 && g_closed[4] == 1, "C26: every client descriptor is closed exactly once");
    verif_reach("released");
}
// C26 with well-formed traffic first: register / connect / bridge, then disconnects in both orders
extern "C" void h_c26_release(unsigned long scenario) {
    reset_env();
    EventLoop loop; RelayServer srv(loop, RelayServerConfig{});
    Session all[3] = {add_client(srv, 3), add_client(srv, 4), add_client(srv, 5)};
    deliver(srv, all[0], std::string("REGISTER ") + kX + "\n");
    if (scenario >= 1) deliver(srv, all[1], std::string("CONNECT ") + kIdB + " " + kX + "\n");
    if (scenario >= 2) deliver(srv, all[1], std::string(32, '{') + "hello");
    if (scenario >= 3) deliver(srv, all[2], std::string("CONNECT ") + kIdC + " " + kX + "\n");
    std::uint8_t order = nondet_u8("order"); verif_assume(order < 6); order = static_cast<std::uint8_t>(verif_concretize(order, 8));
    static const int perms[6][3] = {{0, 1, 2}, {0, 2, 1}, {1, 0, 2}, {1, 2, 0}, {2, 0, 1}, {2, 1, 0}};
    for (int i = 0; i < 3; ++i) disconnect(srv, all[perms[order][i]]);
    verif_assert(srv.sessions_.empty() && srv.registered_.empty(), "C26: once every client has disconnected the relay holds no sessions or registrations");
    verif_assert(g_closed[3] == 1 && g_closed[4] == 1 && g_closed[5] == 1, "C26: every client descriptor is closed exactly once");
    verif_reach("released");
}
// back-pressure: a bridged pair; the registrant's descriptor accepts the relayed bytes in pieces (short write, EAGAIN, rest later):
// the registrant must receive every byte exactly once and in order
extern "C" void h_c25_backpressure(unsigned long first, unsigned long second) {
    reset_env();
    EventLoop loop; RelayServer srv(loop, RelayServerConfig{});
    Session all[2] = {add_client(srv, 3), add_client(srv, 4)};
    const Session &A = all[0], &B = all[1];
    deliver(srv, A, std::string("REGISTER ") + kX + "\n");
    deliver(srv, B, std::string("CONNECT ") + kIdB + " " + kX + "\n");
    const std::string before = received(A);
    // from here on A's socket is slow: the next send() calls take `first` bytes, then EAGAIN, then `second` bytes, then everything
    g_script[A->fd][0] = static_cast<int>(first); g_script[A->fd][1] = 0; g_script[A->fd][2] = static_cast<int>(second); g_script_len[A->fd] = 3; g_script_pos[A->fd] = 0;
    std::string stream = std::string(32, '{');
    for (int i = 0; i < 24; ++i) stream.push_back(static_cast<char>('a' + i));
    deliver(srv, B, stream);
    for (int round = 0; round < 4; ++round) flush(srv, A);
    const std::string ra = received(A);
    const std::string begin = std::string("BEGIN ") + kIdB + "\n";
    verif_assert(ra == before + begin + stream, "C25: under back-pressure the partner still receives every relayed byte exactly once and in order");
    verif_reach("delivered");
}
