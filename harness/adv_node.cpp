// Harness unit for Node::refresh_advertised_endpoints (C34, publication clause) on a PARTIAL Node: the function is lifted from the
// current core/Node.cpp; the candidate assembly (network/AdvertiseDiscovery.cpp) is the real unit. Only config_ and nat_status_ exist;
// SessionManager::listening_port is supplied by the harness.
#include "stdmodels.h"
#include <algorithm>
#include <unordered_set>
#define private public
#include "ephemeralnet/core/Node.hpp"
#undef private
#include "src/network/AdvertiseDiscovery.cpp"
#ifdef VERIF_NATIVE
#include "src/network/NatTraversal.cpp"
#endif
namespace { std::uint16_t g_listen_port = 0; }
std::uint16_t ephemeralnet::network::SessionManager::listening_port() const noexcept { return g_listen_port; }
namespace ephemeralnet {
#include SNIP_AUTO
#include SNIP_REFRESH
}
using namespace ephemeralnet;
namespace {
struct PartialNode {
    alignas(Node) unsigned char raw[sizeof(Node)];
    Node* node() { return reinterpret_cast<Node*>(raw); }
    PartialNode() { Node* n = node(); new (&n->config_) Config(); new (&n->nat_status_) std::optional<network::NatTraversalResult>(); }
};
}
// mode: 0 On, 1 Warn, 2 Off. Pre-state: optionally one operator-pinned (manual) endpoint and one endpoint published automatically by an
// earlier refresh (the configuration may have changed since). Transport bound or not, NAT status present or not, STUN succeeded or not,
// external address routable / private / empty, external port 0 or 6000, control host loopback or a routable address: all symbolic.
extern "C" void h_c34_refresh(unsigned long mode) {
    PartialNode pn; Node* n = pn.node();
    n->config_.advertise_auto_mode = mode == 0 ? Config::AdvertiseAutoMode::On : mode == 1 ? Config::AdvertiseAutoMode::Warn : Config::AdvertiseAutoMode::Off;
    n->config_.advertise_allow_private = false;
    const bool has_manual = nondet_bool("operator_pinned_endpoint"), has_stale = nondet_bool("stale_auto_endpoint");
    if (verif_concretize(has_manual, 2)) { Config::AdvertisedEndpoint e{}; e.host = "203.0.113.9"; e.port = 7000; e.manual = true; e.source = "manual"; n->config_.advertised_endpoints.push_back(e); }
    if (verif_concretize(has_stale, 2)) { Config::AdvertisedEndpoint e{}; e.host = "93.184.216.34"; e.port = 5000; e.manual = false; e.source = "stun"; n->config_.advertised_endpoints.push_back(e); }
    g_listen_port = verif_concretize(nondet_bool("transport_bound"), 2) ? 4000 : 0;
    if (verif_concretize(nondet_bool("nat_status_known"), 2)) {
        network::NatTraversalResult r{};
        r.stun_succeeded = verif_concretize(nondet_bool("stun_succeeded"), 2) != 0;
        std::uint8_t a = nondet_u8("external_address_kind"); verif_assume(a < 3); a = static_cast<std::uint8_t>(verif_concretize(a, 3));
        r.external_address = a == 0 ? "8.8.4.4" : a == 1 ? "10.0.0.5" : "";
        r.external_port = verif_concretize(nondet_bool("external_port_known"), 2) ? 6000 : 0;
        n->nat_status_ = r;
    }
    n->config_.control_host = verif_concretize(nondet_bool("control_host_routable"), 2) ? "9.9.9.9" : "127.0.0.1";
    n->refresh_advertised_endpoints();
    std::size_t autos = 0, manuals = 0;
    for (const auto& e : n->config_.advertised_endpoints) {
        if (e.manual) { ++manuals; verif_assert(e.host == "203.0.113.9" && e.port == 7000, "C34: operator-pinned endpoints are left as configured"); continue; }
        ++autos;
        verif_assert(!network::is_private_or_reserved_host(e.host), "C34: no automatically published endpoint is a non-routable address when private advertising is not allowed");
        verif_assert(!(e.host == "93.184.216.34" && e.port == 5000), "C34: an endpoint published by an earlier refresh is not carried over (only what this discovery found is published)");
    }
    verif_assert(manuals == (has_manual ? 1u : 0u), "C34: operator-pinned endpoints are kept");
    if (mode == 2) verif_assert(autos == 0, "C34: with auto-advertise off nothing auto-discovered is published");
    if (mode == 1 && n->config_.auto_advertise_conflict) verif_assert(autos == 0, "C34: in warn mode conflicting candidates are withheld");
    verif_reach("refreshed");
}
