// NATIVE-LIBS: -lcurl
// CLANG-STD: c++17
// (clang-14 with libstdc++-12 rejects JsonValue's vector<pair<string, JsonValue>> member in C++20 mode; g++ - the product's compiler - accepts it)
// Harness unit for core/UpdateCheck.cpp (C38): JSON string decoding vs an RFC 8259 reference, totality and memory safety of
// parse_update_metadata on arbitrary bytes, and a bound on the recursion depth.
#include "verif.h"
#include "src/core/UpdateCheck.cpp"
#include <cstring>
#include <memory>
#ifdef VERIF_NATIVE
#include <pthread.h>
#include <signal.h>
#include <unistd.h>
#endif
using namespace ephemeralnet::update;

// ---- RFC 8259 section 7 reference decoder for the item shapes the harness builds
static void ref_utf8(unsigned cp, std::string& out) {
    if (cp <= 0x7F) out.push_back(static_cast<char>(cp));
    else if (cp <= 0x7FF) { out.push_back(static_cast<char>(0xC0 | (cp >> 6))); out.push_back(static_cast<char>(0x80 | (cp & 0x3F))); }
    else if (cp <= 0xFFFF) { out.push_back(static_cast<char>(0xE0 | (cp >> 12))); out.push_back(static_cast<char>(0x80 | ((cp >> 6) & 0x3F))); out.push_back(static_cast<char>(0x80 | (cp & 0x3F))); }
    else { out.push_back(static_cast<char>(0xF0 | (cp >> 18))); out.push_back(static_cast<char>(0x80 | ((cp >> 12) & 0x3F))); out.push_back(static_cast<char>(0x80 | ((cp >> 6) & 0x3F))); out.push_back(static_cast<char>(0x80 | (cp & 0x3F))); }
}
static int hexval(unsigned char c) { if (c >= '0' && c <= '9') return c - '0'; if (c >= 'a' && c <= 'f') return c - 'a' + 10; if (c >= 'A' && c <= 'F') return c - 'A' + 10; return -1; }
// document {"version":"<items>", ...rest} with the listed item kinds: r = raw byte, e = simple escape, u = \uXXXX, p = surrogate pair \uD8xx\uDCxx
static const char* kTail = ",\"tag\":\"t\",\"commit\":\"c\",\"channel\":\"s\",\"generated_at\":\"g\",\"downloads\":{\"linux\":{\"url\":\"u\"}}}";
extern "C" void h_c38_string(unsigned long k0, unsigned long k1, unsigned long k2) {
    const unsigned long kinds[3] = {k0, k1, k2};     // 0 none, 1 raw, 2 simple escape, 3 \u non-surrogate, 4 surrogate pair
    std::string doc = "{\"version\":\"", want; bool valid = true;
    for (unsigned long kind : kinds) {
        if (kind == 1) {
            const std::uint8_t c = nondet_u8("raw"); verif_assume(c >= 0x20 && c != '"' && c != '\\');
            doc.push_back(static_cast<char>(c)); want.push_back(static_cast<char>(c));
        } else if (kind == 2) {
            const std::uint8_t c = nondet_u8("esc"); doc.push_back('\\'); doc.push_back(static_cast<char>(c));
            switch (c) { case '"': want.push_back('"'); break; case '\\': want.push_back('\\'); break; case '/': want.push_back('/'); break; case 'b': want.push_back('\b'); break;
                         case 'f': want.push_back('\f'); break; case 'n': want.push_back('\n'); break; case 'r': want.push_back('\r'); break; case 't': want.push_back('\t'); break;
                         default: valid = false; }
            verif_assume(c != 'u');
        } else if (kind == 3 || kind == 4) {
            unsigned cps[2] = {0, 0};
            for (unsigned n = 0; n < (kind == 4 ? 2u : 1u); ++n) {
                doc += "\\u";
                for (int d = 0; d < 4; ++d) {
                    const std::uint8_t h = nondet_u8("hex");
                    // surrogate pairs: first digit d / D, second digit any of the surrogate range (either case), one trailing digit an arbitrary byte, one fixed
                    if (kind == 4 && d == 0) verif_assume(h == (n == 0 ? 'd' : 'D'));
                    if (kind == 4 && d == (n == 0 ? 3 : 2)) verif_assume(h == (n == 0 ? '3' : 'e'));      // one trailing digit per escape is fixed to keep the fork count at about 150
                    if (kind == 4 && d == 1) verif_assume(n == 0 ? (h == '8' || h == '9' || h == 'a' || h == 'b' || h == 'A' || h == 'B') : (h == 'c' || h == 'd' || h == 'e' || h == 'f' || h == 'C' || h == 'D' || h == 'E' || h == 'F'));
                    doc.push_back(static_cast<char>(h)); const int v = hexval(h); if (v < 0) valid = false; cps[n] = (cps[n] << 4) | static_cast<unsigned>(v < 0 ? 0 : v);
                }
            }
            if (kind == 3) { verif_assume(!valid || cps[0] < 0xD800 || cps[0] > 0xDFFF); if (valid) ref_utf8(cps[0], want); }
            else { verif_assume(!valid || (cps[0] >= 0xD800 && cps[0] <= 0xDBFF && cps[1] >= 0xDC00 && cps[1] <= 0xDFFF)); if (valid) ref_utf8(0x10000 + ((cps[0] - 0xD800) << 10) + (cps[1] - 0xDC00), want); }
        }
    }
    doc += "\""; doc += kTail;
    Metadata out; std::string err;
    const bool ok = parse_update_metadata(doc, out, err);
    verif_assert(ok == valid, "C38: a document whose strings are valid JSON strings is accepted, invalid escapes are refused");
    if (ok && valid) {
        verif_assert(out.version == want, "C38: the reported field equals the UTF-8 value of the JSON string (escapes and surrogate pairs per RFC 8259)");
        verif_assert(out.tag == "t" && out.commit == "c" && out.channel == "s" && out.generated_at == "g" && out.downloads.size() == 1 && out.downloads[0].url == "u", "C38: the other fields are reported unchanged");
        verif_reach("decoded");
    } else verif_reach("refused");
}
// arbitrary bytes in an exact-size heap buffer: terminates, no out-of-bounds read, returns true/false, never throws
extern "C" void h_c38_total(unsigned long len, unsigned long first) {
    std::unique_ptr<char[]> buf(new char[len ? len : 1]);
    for (unsigned long i = 0; i < len; ++i) buf[i] = static_cast<char>(nondet_u8("byte"));
    if (first && len) verif_assume(buf[0] == static_cast<char>(first));
    Metadata out; std::string err;
    const bool ok = parse_update_metadata(std::string_view(buf.get(), len), out, err);
    if (!ok) { verif_assert(!err.empty(), "C38: a failed parse reports an error message"); verif_reach("error"); }
    else verif_reach("success");
}
// nesting depth: the call depth must not grow with the nesting of the input (stack overflow on hostile metadata)
namespace { struct DeepArg { std::string doc; bool ok; }; }
#ifdef VERIF_NATIVE
static void on_segv(int) { const char m[] = "ASSERT-FAIL recursion depth: stack overflow on nested input\n"; (void)!write(1, m, sizeof m - 1); _exit(1); }
static void* deep_thread(void* p) { auto* a = static_cast<DeepArg*>(p); Metadata out; std::string err; a->ok = parse_update_metadata(a->doc, out, err); return nullptr; }
#endif
extern "C" void h_c38_depth(unsigned long depth, unsigned long opener) {
    DeepArg a; a.ok = true;
    for (unsigned long i = 0; i < depth; ++i) { if (opener == 0) a.doc += '['; else a.doc += "{\"a\":"; }
#ifdef VERIF_NATIVE
    static char alt[65536]; stack_t ss{}; ss.ss_sp = alt; ss.ss_size = sizeof alt; sigaltstack(&ss, nullptr);
    struct sigaction sa{}; sa.sa_handler = on_segv; sa.sa_flags = SA_ONSTACK; sigaction(SIGSEGV, &sa, nullptr); sigaction(SIGBUS, &sa, nullptr);
    pthread_attr_t at; pthread_attr_init(&at); pthread_attr_setstacksize(&at, 512 * 1024);     // 512 KiB: ample for a bounded-depth parser
    pthread_t th; pthread_create(&th, &at, deep_thread, &a); pthread_join(th, nullptr);
#else
    verif_depth_limit(400);
    { Metadata out; std::string err; a.ok = parse_update_metadata(a.doc, out, err); }
    verif_depth_limit(0);
#endif
    verif_assert(!a.ok, "C38: an unterminated nest is an error, not a success");
    verif_reach("deep");
}
// numeric literals of a given length (digits concrete, optional sign / fraction / exponent chosen symbolically): boundary lengths
extern "C" void h_c38_number(unsigned long len) {
    std::string num(len, '1');
    const std::uint8_t form = nondet_u8("form"); verif_assume(form < 4);
    const unsigned f = static_cast<unsigned>(verif_concretize(form, 4));
    if (f == 1 && len >= 2) num[0] = '-';
    if (f == 2 && len >= 3) num[len / 2] = '.';
    if (f == 3 && len >= 3) num[len - 2] = 'e';
    std::string doc = "{\"n\":" + num + ",\"version\":\"v\"" + kTail;
    Metadata out; std::string err;
    const bool ok = parse_update_metadata(doc, out, err);
    if (ok) { verif_assert(out.version == "v", "C38: fields next to a long number are reported unchanged"); verif_reach("parsed"); }
    else { verif_assert(!err.empty(), "C38: a failed parse reports an error message"); verif_reach("refused"); }
}
