// Harness unit for security/StoreProof.cpp and bootstrap/TokenChallenge.cpp (C19). Sha256 is cut at its public members:
// the stub records every byte fed to it and returns a solver-chosen digest (SHA-256 itself is C08, not claimed here).
#include "verif.h"
#include "src/security/StoreProof.cpp"
#include "src/bootstrap/TokenChallenge.cpp"
namespace { std::uint8_t g_fed[512]; std::size_t g_fed_n = 0; int g_hashes = 0; std::array<std::uint8_t, 32> g_digest{}; bool g_fresh_digest = false; int g_fresh_from = 0; }
namespace ephemeralnet::crypto {
Sha256::Sha256() { g_fed_n = 0; }
void Sha256::update(std::span<const std::uint8_t> data) { for (auto b : data) { if (g_fed_n < sizeof(g_fed)) g_fed[g_fed_n] = b; ++g_fed_n; } }
std::array<std::uint8_t, 32> Sha256::finalize() { ++g_hashes; if (g_fresh_digest && g_hashes > g_fresh_from) nondet_bytes(g_digest.data(), 32, "digest"); return g_digest; }
std::array<std::uint8_t, 32> Sha256::digest(std::span<const std::uint8_t> data) { Sha256 h; h.update(data); return h.finalize(); }
void Sha256::transform(const std::uint8_t*) {}
}
using namespace ephemeralnet;
static std::size_t spec_clz(const std::uint8_t* d, std::size_t n) {   // leading zero bits of the big-endian bit string
    std::size_t z = 0;
    for (std::size_t i = 0; i < n; ++i) for (int b = 7; b >= 0; --b) { if ((d[i] >> b) & 1u) return z; ++z; }
    return z;
}
extern "C" void h_c19_counters(unsigned long nz) {
    std::array<std::uint8_t, 32> d{}; nondet_bytes(d.data(), 32, "digest");
    if (nz < 32) verif_assume(d[nz] != 0);   // bound: the first non-zero byte is among the first nz+1 bytes
    const std::uint8_t k = nondet_u8("difficulty");
    const std::size_t z = spec_clz(d.data(), 32);
    verif_assert(security::count_leading_zero_bits(std::span<const std::uint8_t>(d)) == z, "C19: StoreProof leading-zero counter equals the reference for every digest");
    verif_assert(bootstrap::digest_meets_difficulty(std::span<const std::uint8_t>(d), k) == (z >= k), "C19: bootstrap-token difficulty test agrees with the leading-zero count for every digest and difficulty");
    verif_reach("counted");
}
extern "C" void h_c19_store(unsigned long flen) {
    std::string fname(flen, 'x'); if (flen) nondet_bytes(fname.data(), flen, "filename");
    security::StoreWorkInput in{}; nondet_bytes(in.chunk_id.data(), in.chunk_id.size(), "chunk_id");
    in.payload_size = nondet_u64("size"); in.filename_hint = fname;
    const std::uint64_t nonce = nondet_u64("nonce"); const std::uint8_t diff = nondet_u8("difficulty");
    nondet_bytes(g_digest.data(), 32, "digest"); g_fresh_digest = false; g_hashes = 0;
    const bool ok = security::store_pow_valid(in, nonce, diff);
    const std::uint8_t eff = diff > 24 ? 24 : diff;
    verif_assert(ok == (eff == 0 || spec_clz(g_digest.data(), 32) >= eff), "C19: store PoW accepted exactly when the digest has the required leading zero bits (difficulty capped at 24)");
    if (diff != 0) {
        verif_assert(g_hashes == 1, "C19: one digest per store PoW check");
        std::uint8_t want[512]; std::size_t n = 0;
        for (auto b : in.chunk_id) want[n++] = b;
        for (int s = 56; s >= 0; s -= 8) want[n++] = static_cast<std::uint8_t>(in.payload_size >> s);
        for (int s = 24; s >= 0; s -= 8) want[n++] = static_cast<std::uint8_t>(static_cast<std::uint32_t>(flen) >> s);
        for (std::size_t i = 0; i < flen; ++i) want[n++] = static_cast<std::uint8_t>(fname[i]);
        for (int s = 56; s >= 0; s -= 8) want[n++] = static_cast<std::uint8_t>(nonce >> s);
        verif_assert(g_fed_n == n, "C19: store PoW digest covers chunk id, size, filename and nonce (length)");
        unsigned dd = 0; for (std::size_t i = 0; i < n && i < g_fed_n; ++i) dd |= static_cast<unsigned>(want[i] ^ g_fed[i]);
        verif_assert(dd == 0, "C19: store PoW digest covers chunk id, size, length-prefixed filename and nonce (bytes)");
        verif_reach("hashed");
    }
}
// the solver side: every nonce compute_store_pow / solve_token_challenge returns is one whose digest meets the target
extern "C" void h_c19_store_solver(unsigned long attempts) {
    security::StoreWorkInput in{}; nondet_bytes(in.chunk_id.data(), in.chunk_id.size(), "chunk_id"); in.payload_size = nondet_u64("size");
    const std::uint8_t diff = nondet_u8("difficulty"); verif_assume(diff >= 1);
    g_fresh_digest = true; g_hashes = 0; g_fresh_from = 1;   // the seed digest is concrete: the PRNG state is not a solver term
    for (auto& b : g_digest) b = 0x3C;
    const auto r = security::compute_store_pow(in, diff, attempts);
    if (r) {
        const std::uint8_t eff = diff > 24 ? 24 : diff;
        verif_assert(spec_clz(g_digest.data(), 32) >= eff, "C19: the store PoW solver returns only nonces whose digest meets the target");
        std::uint64_t fed_nonce = 0; for (int i = 0; i < 8; ++i) fed_nonce = (fed_nonce << 8) | g_fed[g_fed_n - 8 + i];
        verif_assert(fed_nonce == *r, "C19: the returned nonce is the one that was hashed");
        verif_reach("solved");
    } else verif_reach("exhausted");
    g_fresh_digest = false;
}
extern "C" void h_c19_token_solver(unsigned long attempts, unsigned long elen) {
    protocol::Manifest m{}; nondet_bytes(m.chunk_id.data(), m.chunk_id.size(), "chunk_id"); nondet_bytes(m.chunk_hash.data(), m.chunk_hash.size(), "chunk_hash");
    protocol::DiscoveryHint h{}; h.endpoint.assign(elen, 'e'); if (elen) nondet_bytes(h.endpoint.data(), elen, "endpoint");
    const std::uint8_t diff = nondet_u8("difficulty"); verif_assume(diff >= 1);
    g_fresh_digest = true; g_hashes = 0; g_fresh_from = 0;
    const auto r = bootstrap::solve_token_challenge(m, h, diff, attempts);
    if (r) {
        verif_assert(spec_clz(g_digest.data(), 32) >= diff, "C19: the token solver returns only nonces whose digest meets the target");
        const std::size_t n = m.chunk_id.size() + m.chunk_hash.size() + elen + 8;
        verif_assert(g_fed_n == n, "C19: token digest covers chunk id, hash, endpoint and nonce (length)");
        unsigned dd = 0;
        for (std::size_t i = 0; i < m.chunk_id.size(); ++i) dd |= static_cast<unsigned>(g_fed[i] ^ m.chunk_id[i]);
        for (std::size_t i = 0; i < m.chunk_hash.size(); ++i) dd |= static_cast<unsigned>(g_fed[m.chunk_id.size() + i] ^ m.chunk_hash[i]);
        for (std::size_t i = 0; i < elen; ++i) dd |= static_cast<unsigned>(g_fed[m.chunk_id.size() + m.chunk_hash.size() + i] ^ static_cast<std::uint8_t>(h.endpoint[i]));
        std::uint64_t fed_nonce = 0; for (int i = 0; i < 8; ++i) fed_nonce = (fed_nonce << 8) | g_fed[n - 8 + i];
        verif_assert(dd == 0 && fed_nonce == *r, "C19: token digest covers chunk id, hash, endpoint and the returned nonce (bytes)");
        verif_reach("solved");
    } else verif_reach("exhausted");
    g_fresh_digest = false;
}
