// Harness unit for the cleanup tick of Node (C05) on a PARTIAL Node: Node::tick, audit_ttl, drain_cleanup_notifications,
// retire_swarm_ledger, announce_chunk and export_chunk_record are lifted from the current core/Node.cpp; ChunkStore and
// KademliaTable are the real units. The non-cleanup parts of tick (plan rebalancing, upload/fetch processing, key rotation) are cut.
#include "stdmodels.h"
#include "rbtree_models.h"
#include <atomic>
#define private public
#include "ephemeralnet/core/Node.hpp"
#undef private
#include "src/core/ChunkStore.cpp"
#include "src/dht/KademliaTable.cpp"
namespace ephemeralnet {
namespace { using SchedulerLock = std::unique_lock<std::recursive_mutex>;
#include SNIP_AUTO
}
void Node::rebalance_swarm_plans() {}
void Node::process_pending_uploads() {}
void Node::process_pending_fetches() {}
void Node::rotate_session_keys(std::chrono::steady_clock::time_point) {}
#include SNIP_RETIRE_LEDGER
#include SNIP_ANNOUNCE_CHUNK
#include SNIP_EXPORT_RECORD
#include SNIP_DRAIN
#include SNIP_AUDIT
#include SNIP_TICK
}
using namespace ephemeralnet;
namespace {
constexpr long long kNs = 1000000000LL;
struct PartialNode {
    alignas(Node) unsigned char raw[sizeof(Node)];
    Node* node() { return reinterpret_cast<Node*>(raw); }
    PartialNode() {
        Node* n = node();
        new (&n->id_) PeerId(); n->id_[0] = 0x5A;
        new (&n->config_) Config();
        new (&n->scheduler_mutex_) std::recursive_mutex();
        new (&n->manifest_cache_) decltype(n->manifest_cache_)();
        new (&n->swarm_plans_) decltype(n->swarm_plans_)();
        new (&n->swarm_roles_) decltype(n->swarm_roles_)();
        new (&n->cleanup_notifications_) std::vector<std::string>();
        new (&n->last_cleanup_) std::chrono::steady_clock::time_point();
        new (&n->chunk_store_) ChunkStore(Config{});
        new (&n->dht_) KademliaTable(n->id_);
    }
};
ChunkId chunk_n(unsigned n) { ChunkId c{}; c[0] = static_cast<std::uint8_t>(0xC0 + n); c[31] = static_cast<std::uint8_t>(7 * n + 1); return c; }
}
// one local chunk with record, self-announcement, key shares, cached manifest, swarm plan and role ledger, all created for the same TTL;
// optionally a lookup at a symbolic instant; then cleanup ticks at symbolic instants.
extern "C" void h_c05_cleanup(unsigned long with_lookup, unsigned long nticks) {
    PartialNode pn; Node* n = pn.node();
    const std::uint8_t interval = (nondet_u8("cleanup_interval_s") & 7) + 1; n->config_.cleanup_interval = std::chrono::seconds(interval);
    verif_env::start_clock();
    const long long t_store = verif_env::g_steady_ns;
    verif_env::g_system_ns = 700000 * kNs + (t_store - 5000 * kNs);            // wall clock runs in step with the steady clock
    n->last_cleanup_ = std::chrono::steady_clock::time_point(std::chrono::nanoseconds(t_store));
    const std::uint8_t ttl = (nondet_u8("ttl_s") & 15) + 1;
    const ChunkId id = chunk_n(0); const std::string key = chunk_id_to_string(id);
    {   // what Node::store_chunk leaves behind for a chunk (its own arithmetic is C02)
        n->chunk_store_.put(id, ChunkData{1, 2, 3}, std::chrono::seconds(ttl));
        protocol::Manifest m{}; m.chunk_id = id; m.threshold = 1; m.expires_at = std::chrono::system_clock::time_point(std::chrono::nanoseconds(verif_env::g_system_ns + static_cast<long long>(ttl) * kNs));
        protocol::KeyShard s{}; s.index = 1; m.shards.push_back(s);
        n->dht_.publish_shards(id, m.shards, 1, 1, std::chrono::seconds(ttl));
        n->announce_chunk(id, std::chrono::seconds(ttl));
        n->manifest_cache_[key] = m;
        SwarmDistributionPlan plan{}; plan.chunk_id = id; n->swarm_plans_[key] = plan;
        n->swarm_roles_[key].self_seed = true;
    }
    const long long deadline = t_store + static_cast<long long>(ttl) * kNs;
    unsigned reported = 0;
    auto advance = [&]() { const long long before = verif_env::g_steady_ns; verif_env::advance_clock(); verif_env::g_system_ns += verif_env::g_steady_ns - before; };
    if (with_lookup) {
        advance();
        const auto rec = n->export_chunk_record(id);
        verif_assert(rec.has_value() == (verif_env::g_steady_ns < deadline), "C05/C01: a lookup serves the chunk exactly while it is live");
        if (!rec.has_value()) verif_reach("expiry-noticed-by-lookup");
    }
    for (unsigned long t = 0; t < nticks; ++t) {
        advance();
        const long long now = verif_env::g_steady_ns;
        const bool cleanup_due = now - n->last_cleanup_.time_since_epoch().count() >= static_cast<long long>(interval) * kNs;
        n->tick();
        for (const auto& note : n->drain_cleanup_notifications()) if (note == key) ++reported;
        if (cleanup_due && now >= deadline) {
            verif_assert(!n->chunk_store_.get_record(id).has_value() && n->chunk_store_.size() == 0, "C05: after a cleanup tick no expired chunk is held");
            verif_assert(n->dht_.find_providers(id).empty(), "C05: the node's own announcement of an expired chunk is withdrawn");
            verif_assert(!n->dht_.shard_record(id).has_value(), "C05: no expired key-share record is held");
            verif_assert(n->dht_.snapshot_locators().empty(), "C05: no expired locator is held");
            verif_assert(n->manifest_cache_.find(key) == n->manifest_cache_.end(), "C05: no cached manifest of an expired chunk is held");
            verif_assert(n->swarm_plans_.find(key) == n->swarm_plans_.end(), "C05: no swarm plan of an expired chunk is held");
            verif_assert(n->audit_ttl().healthy(), "C05: the TTL audit reports no expired entries after a cleanup tick");
            verif_assert(reported == 1, "C05: each local chunk that expires is reported exactly once, however its expiry was first noticed");
            verif_reach("cleaned");
        } else {
            verif_assert(reported <= 1, "C05: an expiry is never reported twice");
            if (now < deadline) verif_assert(reported == 0, "C05: a live chunk is not reported as expired");
        }
    }
}
// provider contacts learned from other peers: chunk X has two providers with symbolic lifetimes, an unrelated chunk Y one; over
// `nticks` ticks at symbolic times, after every cleanup tick the table holds no expired contact or locator (TTL audit healthy)
extern "C" void h_c05_contacts(unsigned long nticks) {
    PartialNode pn; Node* n = pn.node();
    const std::uint8_t interval = (nondet_u8("cleanup_interval_s") & 3) + 1; n->config_.cleanup_interval = std::chrono::seconds(interval);
    verif_env::start_clock();
    const long long t0 = verif_env::g_steady_ns;
    verif_env::g_system_ns = 700000 * kNs + (t0 - 5000 * kNs);
    n->last_cleanup_ = std::chrono::steady_clock::time_point(std::chrono::nanoseconds(t0));
    const ChunkId x = chunk_n(1), y = chunk_n(2);
    long long deadline[3];
    for (unsigned i = 0; i < 3; ++i) {
        const std::uint8_t ttl = (nondet_u8("contact_ttl_s") & 15) + 1;
        PeerContact c{}; c.id[0] = static_cast<std::uint8_t>(0xE0 + i); c.id[31] = static_cast<std::uint8_t>(i + 1); c.address = "10.0.0.1:4000";
        c.expires_at = std::chrono::steady_clock::time_point(std::chrono::nanoseconds(t0 + static_cast<long long>(ttl) * kNs));
        deadline[i] = t0 + static_cast<long long>(ttl) * kNs;
        n->dht_.add_contact(i < 2 ? x : y, std::move(c), std::chrono::seconds(ttl));
    }
    auto advance = [&]() { const long long before = verif_env::g_steady_ns; verif_env::advance_clock(); verif_env::g_system_ns += verif_env::g_steady_ns - before; };
    for (unsigned long t = 0; t < nticks; ++t) {
        advance();
        const long long now = verif_env::g_steady_ns;
        const bool cleanup_due = now - n->last_cleanup_.time_since_epoch().count() >= static_cast<long long>(interval) * kNs;
        n->tick();
        (void)n->drain_cleanup_notifications();
        if (cleanup_due) {
            const auto audit = n->audit_ttl();
            verif_assert(audit.expired_contacts.empty() && audit.expired_locator_chunks.empty(), "C05: after a cleanup tick the node holds no expired provider contact or locator (TTL audit)");
            for (const auto& loc : n->dht_.snapshot_locators()) for (const auto& c : loc.holders) verif_assert(c.expires_at.time_since_epoch().count() > now, "C05: every provider contact still held after a cleanup tick is live");
            for (unsigned i = 0; i < 3; ++i) if (now < deadline[i]) {
                bool found = false; for (const auto& c : n->dht_.find_providers(i < 2 ? x : y)) if (c.id[31] == i + 1) found = true;
                verif_assert(found, "C05/C06: a cleanup tick does not drop a live provider contact");
            }
            verif_reach("cleaned-contacts");
        }
    }
}
