// Harness unit: the WHOLE of daemon/ControlServer.cpp (included, not lifted) behind a model of the socket calls, on a partial Node.
// A request is a byte string played back through recv(); ControlServer::Impl::handle_client reads it with the real recv_line /
// parse_request, dispatches with the real handle_client and runs the real handlers; what the daemon does to the node is recorded by
// the ten Node member functions ControlServer.cpp uses (defined here; the rest of Node does not exist), and the response bytes are
// captured from send(). accept()/listen()/std::thread (start, accept_loop) are compiled but never executed.
// In the engine std::ostringstream / std::ofstream are source-level recording classes (natively the real ones run).
#include "stdmodels.h"
#include "rbtree_models.h"
#include <algorithm>
#include <array>
#include <atomic>
#include <cerrno>
#include <charconv>
#include <cctype>
#include <filesystem>
#include <fstream>
#include <functional>
#include <iomanip>
#include <mutex>
#include <optional>
#include <span>
#include <sstream>
#include <string>
#include <string_view>
#include <thread>
#include <unordered_map>
#include <utility>
#include <vector>
#include <arpa/inet.h>
#include <netinet/in.h>
#include <sys/socket.h>
#include <sys/types.h>
#include <unistd.h>
#define private public
#include "ephemeralnet/core/Node.hpp"
#include "ephemeralnet/daemon/ControlPlane.hpp"
#include "ephemeralnet/daemon/StructuredLogger.hpp"
#include "ephemeralnet/security/StoreProof.hpp"
#include "ephemeralnet/protocol/Manifest.hpp"
#include "ephemeralnet/crypto/Sha256.hpp"
#undef private
namespace {
struct Rec {
    unsigned store_calls = 0, ingest_calls = 0, fetch_calls = 0, stop_transport_calls = 0, stop_callbacks = 0, file_writes = 0, other_node_calls = 0;
    std::uint64_t last_store_ttl = 0;
} g_rec;
ephemeralnet::protocol::Manifest g_manifest; bool g_decodable = true; bool g_pow_ok = true; unsigned g_pow_checks = 0;
std::string g_in; std::size_t g_read = 0; std::string g_out; unsigned g_closed = 0;
}
// ---- socket model: one connected client
namespace { std::size_t g_out_read = 0; constexpr int kClientSideFd = 9; }
extern "C" ssize_t recv(int fd, void* buf, size_t n, int) {
    if (fd == kClientSideFd) {                                       // the control client reading what the daemon wrote
        if (g_out_read >= g_out.size() || n == 0) return 0;
        const std::size_t k = std::min(n, g_out.size() - g_out_read);
        for (std::size_t i = 0; i < k; ++i) static_cast<char*>(buf)[i] = g_out[g_out_read + i];
        g_out_read += k; return static_cast<ssize_t>(k);
    }
    if (g_read >= g_in.size() || n == 0) return 0;                 // the client has sent everything and closed its side
    const std::size_t k = std::min(n, g_in.size() - g_read);
    for (std::size_t i = 0; i < k; ++i) static_cast<char*>(buf)[i] = g_in[g_read + i];
    g_read += k; return static_cast<ssize_t>(k);
}
extern "C" ssize_t send(int, const void* buf, size_t n, int) { g_out.append(static_cast<const char*>(buf), n); return static_cast<ssize_t>(n); }
extern "C" int close(int) { ++g_closed; return 0; }
extern "C" int shutdown(int, int) { return 0; }
// ---- what surrounds the unit
namespace ephemeralnet::protocol {
Manifest decode_manifest(const std::string&) { if (!g_decodable) throw std::invalid_argument("undecodable"); return g_manifest; }
std::string encode_manifest(const Manifest&) { return "eph://stub"; }
}
namespace ephemeralnet::security {
ChunkId derive_chunk_id(std::span<const std::uint8_t> data) { ChunkId id{}; id[0] = 0xD1; id[1] = static_cast<std::uint8_t>(data.size()); return id; }   // the id derivation (SHA-256) is not the subject
std::optional<std::string> sanitize_filename_hint(std::string_view raw) { if (raw.empty()) return std::nullopt; return std::string(raw); }              // C31
bool store_pow_valid(const StoreWorkInput&, std::uint64_t, std::uint8_t) { ++g_pow_checks; return g_pow_ok; }                                           // C19
}
namespace ephemeralnet::crypto {
// the token-holder identity hashes the token; any injective-enough function will do for rate keys: first 32 bytes of the input
std::array<std::uint8_t, 32> Sha256::digest(std::span<const std::uint8_t> data) { std::array<std::uint8_t, 32> out{}; for (std::size_t i = 0; i < data.size() && i < 31; ++i) out[i] = data[i]; out[31] = static_cast<std::uint8_t>(data.size()); return out; }
}
namespace ephemeralnet::daemon {
StructuredLogger& StructuredLogger::instance() { static StructuredLogger l; return l; }
void StructuredLogger::log(Level, std::string_view, FieldList) {}
namespace { std::size_t g_stream_limit = 64; }
std::size_t max_control_stream_bytes() { return g_stream_limit; }
void set_max_control_stream_bytes(std::size_t) {}               // the harness keeps a small cap so that over-cap payloads are cheap to build
}
namespace ephemeralnet {
protocol::Manifest Node::store_chunk(const ChunkId& id, ChunkData, std::chrono::seconds ttl, std::optional<std::string>) { ++g_rec.store_calls; g_rec.last_store_ttl = static_cast<std::uint64_t>(ttl.count()); protocol::Manifest m{}; m.chunk_id = id; return m; }
bool Node::ingest_manifest(const std::string&) { ++g_rec.ingest_calls; return true; }
std::optional<ChunkData> Node::fetch_chunk(const ChunkId&) { ++g_rec.fetch_calls; return ChunkData{1, 2, 3}; }
Node::PowStatistics Node::pow_statistics() const { ++g_rec.other_node_calls; return {}; }
Node::ConnectivityReport Node::diagnose_connectivity() { ++g_rec.other_node_calls; return {}; }
void Node::stop_transport() { ++g_rec.stop_transport_calls; }
std::uint16_t Node::transport_port() const { return 4000; }
std::size_t Node::connected_peer_count() const { return 0; }
namespace { std::vector<ChunkStore::SnapshotEntry> g_snapshot; }
std::vector<ChunkStore::SnapshotEntry> Node::stored_chunks() const { return g_snapshot; }
}
#ifndef VERIF_NATIVE
namespace verif_io {
struct Sink {
    std::string buf; bool hex = false;
    Sink& operator<<(const char* s) { buf += s; return *this; }
    Sink& operator<<(char c) { buf.push_back(c); return *this; }
    Sink& operator<<(const std::string& s) { buf += s; return *this; }
    Sink& operator<<(std::string_view s) { buf.append(s.data(), s.size()); return *this; }
    Sink& operator<<(std::ios_base& (*f)(std::ios_base&)) { if (f == static_cast<std::ios_base& (*)(std::ios_base&)>(std::hex)) hex = true; return *this; }
    template <class T, class = std::enable_if_t<std::is_arithmetic_v<T> && !std::is_same_v<T, char>>> Sink& operator<<(T v) {
        if (hex) { const unsigned b = static_cast<unsigned>(v) & 0xFF; buf.push_back("0123456789abcdef"[b >> 4]); buf.push_back("0123456789abcdef"[b & 15]); }
        else buf += std::to_string(v);
        return *this;
    }
    template <class T, class = std::enable_if_t<!std::is_arithmetic_v<T>>, class = void> Sink& operator<<(const T&) { return *this; }   // setw / setfill
    std::string str() const { return buf; }
};
struct OutFile {
    OutFile(const std::filesystem::path&, std::ios::openmode) {}
    explicit operator bool() const { return true; }
    bool operator!() const { return false; }
    bool good() const { return true; }
    OutFile& write(const char*, std::streamsize) { ++g_rec.file_writes; return *this; }
    OutFile& flush() { return *this; }
    void close() {}
};
}
namespace std { using verif_sink_alias4 = verif_io::Sink; using verif_ofstream_alias4 = verif_io::OutFile; }
#define ostringstream verif_sink_alias4
#define ofstream verif_ofstream_alias4
#endif
#define private public
#include "src/daemon/ControlServer.cpp"
#undef private
#ifndef VERIF_NATIVE
#undef ostringstream
#undef ofstream
#endif
#ifdef VERIF_WITH_CLIENT
// the control client's response reader, lifted from the current daemon/ControlClient.cpp (its helpers have the same names as the
// server's, so it lives in its own namespace); it reads the daemon's output through recv(kClientSideFd)
namespace client_side {
using namespace ephemeralnet::daemon;
using NativeSocket = int;
#include SNIP_C_K1
#include SNIP_C_TO_UPPER
#include SNIP_C_RECV_LINE
#include SNIP_C_RECV_EXACT
#include SNIP_AUTO
#include SNIP_C_PARSE_RESPONSE
}
#endif
extern "C" void h_path_split_stub4(std::filesystem::path*) {}
extern "C" void h_fs_parent_empty4(std::filesystem::path* out, const std::filesystem::path*) { new (out) std::filesystem::path(); }   // engine only: the output path has no directory part
// std::filesystem::absolute: identity on the text, and - like the real one - an error for the empty path
extern "C" void h_fs_absolute4(std::filesystem::path* out, const std::filesystem::path* in) {
    if (in->native().empty()) throw std::runtime_error("filesystem error: cannot make absolute path: Invalid argument");      // the real one throws filesystem_error (a runtime_error)
    new (out) std::filesystem::path(*in);
}
// the error_code overload of std::filesystem::absolute: identity on the text; the empty path is an error (as in the real one)
extern "C" void h_fs_absolute_ec4(std::filesystem::path* out, const std::filesystem::path* in, std::error_code* ec) {
    if (in->native().empty()) { *ec = std::error_code(22, ec->category()); new (out) std::filesystem::path(); return; }
    *ec = std::error_code(0, ec->category()); new (out) std::filesystem::path(*in);
}
using namespace ephemeralnet; using namespace ephemeralnet::daemon;
namespace {
struct PartialNode {
    alignas(Node) unsigned char raw[sizeof(Node)];
    Node* node() { return reinterpret_cast<Node*>(raw); }
    PartialNode() { new (&node()->config_) Config(); }
};
std::string sym_text(unsigned long n, const char* tag) { std::string t; for (unsigned long i = 0; i < n; ++i) { const std::uint8_t c = nondet_u8(tag); verif_assume(c != '\n' && c != '\r'); t.push_back(static_cast<char>(c)); } return t; }
// a command word with the case of every letter symbolic
std::string any_case(const char* word) { std::string t; for (const char* p = word; *p; ++p) t.push_back(nondet_bool("lower_case") ? static_cast<char>(*p | 0x20) : *p); return t; }
// status line and CODE of the response the daemon wrote
bool response_ok() { return g_out.rfind("STATUS:OK\n", 0) == 0; }
std::string response_code() { const auto p = g_out.find("\nCODE:"); if (p == std::string::npos) return {}; const auto e = g_out.find('\n', p + 1); return g_out.substr(p + 6, e == std::string::npos ? std::string::npos : e - p - 6); }
// where a daemon-side FETCH writes: natively a file in the check's scratch directory
std::string out_path() {
#ifdef VERIF_NATIVE
    const char* w = std::getenv("VERIF_WORK"); return std::string(w ? w : ".") + "/ctrl_full_out.bin";
#else
    return "out.bin";
#endif
}
bool file_written() {
#ifdef VERIF_NATIVE
    std::error_code ec; return std::filesystem::exists(out_path(), ec);
#else
    return g_rec.file_writes > 0;
#endif
}
bool ends_with(const std::string& s, const char* suf) { const std::string x(suf); return s.size() >= x.size() && s.compare(s.size() - x.size(), x.size(), x) == 0; }
void reset_env() {
    g_out_read = 0;
#ifdef VERIF_NATIVE
    { std::error_code ec; std::filesystem::remove(out_path(), ec); }
#endif
    g_rec = Rec{}; g_in.clear(); g_read = 0; g_out.clear(); g_closed = 0; g_pow_checks = 0; g_pow_ok = true; g_decodable = true; g_manifest = protocol::Manifest{}; }
}
// ---------------------------------------------------------------- C27 end to end: request bytes -> effect on the node
// command: 0 STOP, 1 STORE, 2 FETCH to a daemon-side path, 3 FETCH streamed; token_form: 0 absent, 1 same length, 2 shorter, 3 longer,
// 4 longer by 256 bytes. The case of every letter of the command word and the position of the TOKEN header (before / after COMMAND) are symbolic.
extern "C" void h_c27_wire(unsigned long command, unsigned long token_form) {
    reset_env();
    PartialNode pn; Node* n = pn.node(); n->config_.control_token = std::string("tok"); n->config_.store_pow_difficulty = 0;
    std::mutex m; unsigned stops = 0;
    ControlServer::Impl impl(*n, m, [&stops] { ++stops; });
    std::string token_line;
    if (token_form) { const std::string t = sym_text(token_form == 1 ? 3 : token_form == 2 ? 2 : token_form == 3 ? 4 : 259, "token"); verif_assume(t != "tok"); token_line = "TOKEN:" + t + "\n"; }
    const std::string cmd = "COMMAND:" + any_case(command == 0 ? "STOP" : command == 1 ? "STORE" : "FETCH") + "\n";
    std::string rq = nondet_bool("token_first") ? token_line + cmd : cmd + token_line;
    if (command == 1) rq += "PAYLOAD-LENGTH:3\n";
    if (command >= 2) { rq += "MANIFEST:eph://x\n"; rq += command == 2 ? "OUT:" + out_path() + "\n" : std::string("STREAM:client\n"); }
    rq += "\n";
    if (command == 1) rq += "abc";
    g_in = rq;
    impl.handle_client(5, "127.0.0.1");
    verif_assert(!response_ok() && ends_with(response_code(), "_UNAUTHENTICATED"), "C27: a request without the exact control token is refused with an authentication error");
    verif_assert(g_rec.store_calls == 0 && g_rec.ingest_calls == 0 && g_rec.fetch_calls == 0 && !file_written() && g_rec.stop_transport_calls == 0 && stops == 0,
                 "C27: a STORE / FETCH / STOP request without the exact control token has no effect (nothing stored, registered, fetched, written or stopped)");
    verif_reach("refused");
}
// with the exact token the same requests go through (the gate is not simply closed)
extern "C" void h_c27_wire_open(unsigned long command) {
    reset_env();
    PartialNode pn; Node* n = pn.node(); n->config_.control_token = std::string("tok"); n->config_.store_pow_difficulty = 0;
    std::mutex m; unsigned stops = 0;
    ControlServer::Impl impl(*n, m, [&stops] { ++stops; });
    std::string rq = "COMMAND:" + any_case(command == 0 ? "STOP" : command == 1 ? "STORE" : "FETCH") + "\nTOKEN:tok\n";
    if (command == 1) rq += "PAYLOAD-LENGTH:3\n";
    if (command >= 2) { rq += "MANIFEST:eph://x\n"; rq += command == 2 ? "OUT:" + out_path() + "\n" : std::string("STREAM:client\n"); }
    rq += "\n";
    if (command == 1) rq += "abc";
    g_in = rq;
    impl.handle_client(5, "127.0.0.1");
    verif_assert(response_ok(), "C27: the exact token is accepted");
    if (command == 0) verif_assert(stops == 1 || g_rec.stop_transport_calls == 1, "C27: STOP with the exact token stops the daemon");
    if (command == 1) verif_assert(g_rec.store_calls == 1, "C27: STORE with the exact token stores");
    if (command >= 2) verif_assert(g_rec.fetch_calls == 1, "C27: FETCH with the exact token fetches");
    verif_reach("accepted");
}

#ifdef VERIF_WITH_CLIENT
// ---------------------------------------------------------------- C29 end to end: LIST over a store of n chunks -> the client's parsed fields
// Every chunk's remaining lifetime is symbolic in [-1 s, +2.875 s] (1/8 s grid; <= 0 = expired but not yet swept), encrypted flag symbolic.
extern "C" void h_c29_list(unsigned long nchunks) {
    reset_env();
    PartialNode pn; Node* n = pn.node();
    std::mutex m; ControlServer::Impl impl(*n, m, [] {});
    verif_env::g_steady_ns = 9000LL * 1000000000LL;
    g_snapshot.clear();
    long long left8[4]; bool enc[4];
    for (unsigned long i = 0; i < nchunks; ++i) {
        ChunkStore::SnapshotEntry e{}; e.id[0] = static_cast<std::uint8_t>(0xC0 + i); e.id[31] = static_cast<std::uint8_t>(i); e.key = chunk_id_to_string(e.id);
        left8[i] = static_cast<long long>(nondet_u8("remaining_eighths") & 31) - 8; enc[i] = nondet_bool("encrypted");
        e.expires_at = std::chrono::steady_clock::time_point(std::chrono::nanoseconds(verif_env::g_steady_ns + left8[i] * 125000000LL));
        e.encrypted = enc[i]; e.size = 1000 + i;
        g_snapshot.push_back(e);
    }
    g_in = "COMMAND:LIST\n\n";
    impl.handle_client(5, "127.0.0.1");
    const ControlResponse got = client_side::parse_response(kClientSideFd, nullptr);
    verif_assert(got.success, "C29: the client sees the status the daemon sent");
    const auto entries = got.fields.find("ENTRIES"); const auto count = got.fields.find("COUNT");
    verif_assert(entries != got.fields.end() && count != got.fields.end(), "C29: the LIST response reaches the client with its ENTRIES and COUNT fields");
    if (entries != got.fields.end() && count != got.fields.end()) {
        std::size_t lines = 0; for (char c : entries->second) if (c == '\n') ++lines;
        verif_assert(count->second == std::to_string(lines), "C29: COUNT equals the number of listed chunks");
        for (unsigned long i = 0; i < nchunks; ++i) {
            if (left8[i] <= 0) continue;                                    // not live any more: may or may not be listed
            const std::string want = g_snapshot[i].key + "," + std::to_string(1000 + i) + "," + (enc[i] ? "encrypted" : "plain") + ",";
            verif_assert(entries->second.find(want) != std::string::npos, "C29: eph list reports every live local chunk (also one in its last second)");
        }
    }
    verif_assert(g_out_read == g_out.size(), "C29: the client consumes exactly the response");
    verif_reach("listed");
}
#endif
// ---------------------------------------------------------------- C35: control-plane request bytes never take the daemon down
// (an exception that escapes handle_client ends the accept thread and with it the daemon: the engine reports it as escaping)
// FETCH with an OUT header of `outlen` symbolic characters (0 = the empty value), with or without STREAM, decodable manifest
extern "C" void h_c35_control_fetch(unsigned long outlen) {
    reset_env();
    PartialNode pn; Node* n = pn.node();
    std::mutex m; ControlServer::Impl impl(*n, m, [] {});
    g_decodable = nondet_bool("manifest_decodable");
    std::string rq = "COMMAND:FETCH\nMANIFEST:eph://x\nOUT:" + sym_text(outlen, "out_char") + "\n";
    if (nondet_bool("stream_header")) rq += "STREAM:client\n";
    rq += "\n";
    g_in = rq;
    impl.handle_client(5, "127.0.0.1");
    verif_assert(!g_out.empty(), "C35: every control request gets a response");
    verif_reach("answered");
}
// a request of n arbitrary bytes (then the client closes its side)
extern "C" void h_c35_control_bytes(unsigned long nbytes) {
    reset_env();
    PartialNode pn; Node* n = pn.node();
    std::mutex m; ControlServer::Impl impl(*n, m, [] {});
    std::string rq; for (unsigned long i = 0; i < nbytes; ++i) rq.push_back(static_cast<char>(nondet_u8("request_byte")));
    g_in = rq;
    impl.handle_client(5, "127.0.0.1");
    verif_reach("survived");
}
// a well-formed header block COMMAND:<any of the nine commands, chosen symbolically> plus one header whose key is symbolic among the
// keys the handlers read and whose value is 0..vlen symbolic characters
extern "C" void h_c35_control_header(unsigned long vlen) {
    reset_env();
    PartialNode pn; Node* n = pn.node();
    std::mutex m; ControlServer::Impl impl(*n, m, [] {});
    static const char* cmds[] = {"PING", "STATUS", "STOP", "LIST", "DEFAULTS", "METRICS", "DIAGNOSTICS", "STORE", "FETCH"};
    static const char* keys[] = {"TTL", "PAYLOAD-LENGTH", "OUT", "STREAM", "MANIFEST", "TOKEN", "STORE-POW", "FILENAME", "PATH"};
    std::uint8_t ci = nondet_u8("command"); verif_assume(ci < 9); ci = static_cast<std::uint8_t>(verif_concretize(ci, 9));
    std::uint8_t ki = nondet_u8("header"); verif_assume(ki < 9); ki = static_cast<std::uint8_t>(verif_concretize(ki, 9));
    std::string rq = std::string("COMMAND:") + cmds[ci] + "\n";
    if (ci == 8 && ki != 4) rq += "MANIFEST:eph://x\n";
    rq += std::string(keys[ki]) + ":" + sym_text(vlen, "value_char") + "\n\n";
    g_in = rq;
    impl.handle_client(5, "127.0.0.1");
    verif_assert(!g_out.empty(), "C35: every control request gets a response");
    verif_reach("answered");
}
