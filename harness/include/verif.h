// Harness API shared by Engine S (interpreted), Engine B (CBMC stubs) and the native replay runtime.
#pragma once
#include <cstdint>
#include <cstddef>
extern "C" {
std::uint8_t nondet_u8(const char* name);
std::uint16_t nondet_u16(const char* name);
std::uint32_t nondet_u32(const char* name);
std::uint64_t nondet_u64(const char* name);
bool nondet_bool(const char* name);
void nondet_bytes(void* p, std::size_t n, const char* name);
void verif_assume(bool c);
void verif_assert(bool c, const char* msg);
void verif_observe(const char* tag, std::uint64_t v);
void verif_reach(const char* tag);          // non-vacuity witness: must be reachable
void verif_note(const char* msg);
std::uint64_t verif_concretize(std::uint64_t v, std::uint64_t cap);  // exhaustive enumeration (forks), cap = max distinct values
int verif_is_symbolic(std::uint64_t v);
void verif_abort(void);
// Engine S: more than n further call frames from here is a violation (0 switches the limit off). Native: no-op (the harness runs the
// call on a small stack instead, see harness/json.cpp)
void verif_depth_limit(std::uint64_t n);
// uninterpreted function of the input bytes (Engine S only; the native replay never reaches it because redirects exist only in the engine)
void verif_uf(const char* name, const void* in, std::size_t in_len, void* out, std::size_t out_len);
// known-finding region directive (DESIGN.md 3): excluded by assumption in the main run, assumed in the finding run
bool verif_known(const char* finding_id, bool in_region);
// lock discipline (C36): accesses to a watched region made inside a named context are logged together with the mutexes held
// (Engine S; no-ops natively, where ThreadSanitizer runs the real threads instead)
void verif_watch(const void* p, std::size_t n, const char* region);
void verif_lock_name(const void* mutex, const char* name);
void verif_context(const char* name);       // "" ends the context
}
