// Environment models that are *defined in the harness translation unit* (so both Engine S and the native replay use
// the same definitions): clocks, std::hash bytes, the unordered-container rehash policy, lower-case hex id strings.
// Every one of them is part of the claim of each check that includes this file.
#pragma once
#include <chrono>
#include <string>
#include <array>
#include <cstdint>
#include <unordered_map>
#include "verif.h"

// ---- clocks: the harness owns the time. Values are nanoseconds (steady) and nanoseconds since epoch (system).
namespace verif_env {
inline long long g_steady_ns = 0; inline long long g_system_ns = 0;
// Time base for history harnesses. Event times are multiples of 1/8 s: deadlines are event times plus whole seconds, so only the
// ORDER of the fractional parts of the (at most 8) event times matters, and any real-valued schedule is order-isomorphic to one on
// the 1/8 s grid. Advances are 0..127 eighths (< 16 s) - narrow operands keep the seconds->nanoseconds products cheap to bit-blast.
constexpr long long kEighth = 125000000LL;
inline void start_clock() { g_steady_ns = 5000LL * 1000000000LL + static_cast<long long>(nondet_u8("t0_8ths") & 7) * kEighth; }
inline void advance_clock() { g_steady_ns += static_cast<long long>(nondet_u8("advance_8ths") & 127) * kEighth; }
}
std::chrono::steady_clock::time_point std::chrono::steady_clock::now() noexcept {
    return time_point(duration(verif_env::g_steady_ns));
}
std::chrono::system_clock::time_point std::chrono::system_clock::now() noexcept {
    return time_point(duration(verif_env::g_system_ns));
}

// ---- std::hash<std::string>/bytes: any deterministic function is a legal hash; container semantics must not depend on it.
// VERIF_HASH_MODE 0: constant per length (everything collides: equality comparison decides), 1: first byte, 2: byte sum.
#ifndef VERIF_HASH_MODE
#define VERIF_HASH_MODE 0
#endif
namespace std {
size_t _Hash_bytes(const void* p, size_t len, size_t seed) {
    const unsigned char* b = static_cast<const unsigned char*>(p);
#if VERIF_HASH_MODE == 0
    (void)b; (void)seed; return len;
#elif VERIF_HASH_MODE == 1
    (void)seed; return len ? b[len - 1] : 0;
#else
    size_t h = seed; for (size_t i = 0; i < len; ++i) h += b[i]; return h;
#endif
}
// rehash policy: grow to the next listed prime once the load factor (1.0) would be exceeded (legal: growth policy is unspecified)
namespace __detail {
size_t _Prime_rehash_policy::_M_next_bkt(size_t n) const {
    static const size_t primes[] = {2, 3, 5, 7, 11, 13, 17, 23, 29, 37, 47, 59, 79, 97, 127, 197, 257, 409, 521, 1031, 4099, 16411, 65537};
    size_t p = primes[sizeof(primes) / sizeof(primes[0]) - 1];
    for (size_t q : primes) if (q >= n) { p = q; break; }
    _M_next_resize = p;
    return p;
}
std::pair<bool, size_t> _Prime_rehash_policy::_M_need_rehash(size_t n_bkt, size_t n_elt, size_t n_ins) const {
    if (n_elt + n_ins > _M_next_resize) {
        size_t want = n_elt + n_ins; if (_M_next_resize == 0 && want < 11) want = 11;
        if (want >= n_bkt) return {true, _M_next_bkt(want + 1 > n_bkt * 2 ? want + 1 : n_bkt * 2)};
        _M_next_resize = n_bkt;
        return {false, 0};
    }
    return {false, 0};
}
}  // namespace __detail
}  // namespace std

// ---- lower-case hex (the real ones in core/Types.cpp are iostream code). Natively every call is compared with the real function.
#ifdef VERIF_NATIVE
#define chunk_id_to_string real_chunk_id_to_string
#define peer_id_to_string real_peer_id_to_string
#define peer_id_from_string real_peer_id_from_string
#include "src/core/Types.cpp"
#undef chunk_id_to_string
#undef peer_id_to_string
#undef peer_id_from_string
#else
#include "ephemeralnet/Types.hpp"
#endif
namespace ephemeralnet {
static std::string verif_hex32(const std::array<std::uint8_t, 32>& a) {
    static const char* d = "0123456789abcdef";
    std::string s(64, '0');
    for (std::size_t i = 0; i < 32; ++i) { s[2 * i] = d[a[i] >> 4]; s[2 * i + 1] = d[a[i] & 15]; }
    return s;
}
std::string chunk_id_to_string(const ChunkId& id) {
    std::string s = verif_hex32(id);
#ifdef VERIF_NATIVE
    if (s != real_chunk_id_to_string(id)) { std::printf("MODEL-MISMATCH chunk_id_to_string\n"); std::fflush(stdout); std::_Exit(4); }
#endif
    return s;
}
std::string peer_id_to_string(const PeerId& id) {
    std::string s = verif_hex32(id);
#ifdef VERIF_NATIVE
    if (s != real_peer_id_to_string(id)) { std::printf("MODEL-MISMATCH peer_id_to_string\n"); std::fflush(stdout); std::_Exit(4); }
#endif
    return s;
}
std::optional<PeerId> peer_id_from_string(const std::string& text) {
    std::optional<PeerId> out;
    if (text.size() == 64) {
        PeerId id{}; bool ok = true;
        for (std::size_t i = 0; i < 32 && ok; ++i) {
            // istringstream >> hex on a 2-char field: parses the longest hex prefix; fails when the first char is not a hex digit
            auto hv = [](char c) -> int { if (c >= '0' && c <= '9') return c - '0'; if (c >= 'a' && c <= 'f') return c - 'a' + 10; if (c >= 'A' && c <= 'F') return c - 'A' + 10; return -1; };
            const int h = hv(text[2 * i]), l = hv(text[2 * i + 1]);
            if (h < 0) { ok = false; break; }
            id[i] = static_cast<std::uint8_t>(l < 0 ? h : h * 16 + l);
        }
        if (ok) out = id;
    }
#ifdef VERIF_NATIVE
    const auto real = real_peer_id_from_string(text);
    if (real.has_value() != out.has_value() || (real && *real != *out)) { std::printf("MODEL-MISMATCH peer_id_from_string\n"); std::fflush(stdout); std::_Exit(4); }
#endif
    return out;
}
}  // namespace ephemeralnet
