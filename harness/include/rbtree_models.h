// std::map / std::set primitives that live in libstdc++.so, as plain (unbalanced) binary-search-tree operations.
// The observable behaviour of the ordered containers does not depend on the balance of the tree; the root is kept black because
// _Rb_tree_decrement recognises the header node by "red and parent's parent is itself".
#pragma once
#include <map>
namespace std {
void _Rb_tree_insert_and_rebalance(const bool insert_left, _Rb_tree_node_base* x, _Rb_tree_node_base* p, _Rb_tree_node_base& header) noexcept {
    x->_M_parent = p; x->_M_left = nullptr; x->_M_right = nullptr; x->_M_color = _S_red;
    if (insert_left) {
        p->_M_left = x;                               // also makes leftmost = x when p is the header
        if (p == &header) { header._M_parent = x; header._M_right = x; x->_M_color = _S_black; }
        else if (p == header._M_left) header._M_left = x;
    } else {
        p->_M_right = x;
        if (p == header._M_right) header._M_right = x;
    }
}
static _Rb_tree_node_base* verif_rb_inc(_Rb_tree_node_base* x) noexcept {
    if (x->_M_right != nullptr) { x = x->_M_right; while (x->_M_left != nullptr) x = x->_M_left; }
    else { _Rb_tree_node_base* y = x->_M_parent; while (x == y->_M_right) { x = y; y = y->_M_parent; } if (x->_M_right != y) x = y; }
    return x;
}
static _Rb_tree_node_base* verif_rb_dec(_Rb_tree_node_base* x) noexcept {
    if (x->_M_color == _S_red && x->_M_parent->_M_parent == x) x = x->_M_right;
    else if (x->_M_left != nullptr) { _Rb_tree_node_base* y = x->_M_left; while (y->_M_right != nullptr) y = y->_M_right; x = y; }
    else { _Rb_tree_node_base* y = x->_M_parent; while (x == y->_M_left) { x = y; y = y->_M_parent; } x = y; }
    return x;
}
_Rb_tree_node_base* _Rb_tree_increment(_Rb_tree_node_base* x) noexcept { return verif_rb_inc(x); }
const _Rb_tree_node_base* _Rb_tree_increment(const _Rb_tree_node_base* x) noexcept { return verif_rb_inc(const_cast<_Rb_tree_node_base*>(x)); }
_Rb_tree_node_base* _Rb_tree_decrement(_Rb_tree_node_base* x) noexcept { return verif_rb_dec(x); }
const _Rb_tree_node_base* _Rb_tree_decrement(const _Rb_tree_node_base* x) noexcept { return verif_rb_dec(const_cast<_Rb_tree_node_base*>(x)); }
}  // namespace std
