// std::map / std::set primitives that live in libstdc++.so, as plain (unbalanced) binary-search-tree operations.
// The observable behaviour of the ordered containers does not depend on the balance of the tree; the root is kept black because
// _Rb_tree_decrement recognises the header node by "red and parent's parent is itself".
#pragma once
#include <map>
namespace std {
void _Rb_tree_insert_and_rebalance(const bool insert_left, _Rb_tree_node_base* x, _Rb_tree_node_base* p, _Rb_tree_node_base& header) noexcept {
    x->_M_parent = p; x->_M_left = nullptr; x->_M_right = nullptr; x->_M_color = _S_red;
    if (insert_left) {
        p->_M_left = x;                               // also makes leftmost = x when p is the header
        if (p == &header) { header._M_parent = x; header._M_right = x; x->_M_color = _S_black; }
        else if (p == header._M_left) header._M_left = x;
    } else {
        p->_M_right = x;
        if (p == header._M_right) header._M_right = x;
    }
}
static _Rb_tree_node_base* verif_rb_inc(_Rb_tree_node_base* x) noexcept {
    if (x->_M_right != nullptr) { x = x->_M_right; while (x->_M_left != nullptr) x = x->_M_left; }
    else { _Rb_tree_node_base* y = x->_M_parent; while (x == y->_M_right) { x = y; y = y->_M_parent; } if (x->_M_right != y) x = y; }
    return x;
}
static _Rb_tree_node_base* verif_rb_dec(_Rb_tree_node_base* x) noexcept {
    if (x->_M_color == _S_red && x->_M_parent->_M_parent == x) x = x->_M_right;
    else if (x->_M_left != nullptr) { _Rb_tree_node_base* y = x->_M_left; while (y->_M_right != nullptr) y = y->_M_right; x = y; }
    else { _Rb_tree_node_base* y = x->_M_parent; while (x == y->_M_left) { x = y; y = y->_M_parent; } x = y; }
    return x;
}
_Rb_tree_node_base* _Rb_tree_increment(_Rb_tree_node_base* x) noexcept { return verif_rb_inc(x); }
const _Rb_tree_node_base* _Rb_tree_increment(const _Rb_tree_node_base* x) noexcept { return verif_rb_inc(const_cast<_Rb_tree_node_base*>(x)); }
_Rb_tree_node_base* _Rb_tree_decrement(_Rb_tree_node_base* x) noexcept { return verif_rb_dec(x); }
const _Rb_tree_node_base* _Rb_tree_decrement(const _Rb_tree_node_base* x) noexcept { return verif_rb_dec(const_cast<_Rb_tree_node_base*>(x)); }
// removal without rebalancing (libstdc++'s unlinking code, minus the recolouring/rotations); the root is kept black
_Rb_tree_node_base* _Rb_tree_rebalance_for_erase(_Rb_tree_node_base* const z, _Rb_tree_node_base& header) noexcept {
    _Rb_tree_node_base*& root = header._M_parent; _Rb_tree_node_base*& leftmost = header._M_left; _Rb_tree_node_base*& rightmost = header._M_right;
    _Rb_tree_node_base* y = z; _Rb_tree_node_base* x = nullptr;
    if (y->_M_left == nullptr) x = y->_M_right;
    else if (y->_M_right == nullptr) x = y->_M_left;
    else { y = y->_M_right; while (y->_M_left != nullptr) y = y->_M_left; x = y->_M_right; }
    if (y != z) {                                            // z has two children: its successor y takes its place
        z->_M_left->_M_parent = y; y->_M_left = z->_M_left;
        if (y != z->_M_right) { if (x) x->_M_parent = y->_M_parent; y->_M_parent->_M_left = x; y->_M_right = z->_M_right; z->_M_right->_M_parent = y; }
        if (root == z) root = y; else if (z->_M_parent->_M_left == z) z->_M_parent->_M_left = y; else z->_M_parent->_M_right = y;
        y->_M_parent = z->_M_parent;
        const _Rb_tree_color c = y->_M_color; y->_M_color = z->_M_color; z->_M_color = c;
        y = z;
    } else {
        if (x) x->_M_parent = y->_M_parent;
        if (root == z) root = x; else if (z->_M_parent->_M_left == z) z->_M_parent->_M_left = x; else z->_M_parent->_M_right = x;
        if (leftmost == z) { if (z->_M_right == nullptr) leftmost = z->_M_parent; else { _Rb_tree_node_base* m = x; while (m->_M_left != nullptr) m = m->_M_left; leftmost = m; } }
        if (rightmost == z) { if (z->_M_left == nullptr) rightmost = z->_M_parent; else { _Rb_tree_node_base* m = x; while (m->_M_right != nullptr) m = m->_M_right; rightmost = m; } }
    }
    if (root != nullptr) root->_M_color = _S_black;
    return y;
}
}  // namespace std
