// harness-owned clocks only (for units that need no container/id models)
#pragma once
#include <chrono>
namespace verif_env { inline long long g_steady_ns = 0; inline long long g_system_ns = 1700000000LL * 1000000000LL; }
std::chrono::steady_clock::time_point std::chrono::steady_clock::now() noexcept { return time_point(duration(verif_env::g_steady_ns)); }
std::chrono::system_clock::time_point std::chrono::system_clock::now() noexcept { return time_point(duration(verif_env::g_system_ns)); }
