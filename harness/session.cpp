// Harness unit for network/SessionManager.cpp (C14): the sender-side framing (send_encrypted) and the receiver loop (receive_loop)
// of the real unit, with the sockets modelled by the harness (recv plays back a byte string, send captures) and all iostream
// logging sent to a sink. The session threads, accept loop, TCP itself and the handshake exchange are not encoded.
#include "stdmodels.h"
#include <cerrno>
#include <sys/types.h>
#include <sys/socket.h>
#include <unistd.h>
#include <sys/time.h>
#include <random>
#define private public
#include "ephemeralnet/network/SessionManager.hpp"
#undef private
namespace { std::string g_in; std::size_t g_in_pos = 0; std::string g_sent; unsigned g_closed = 0; unsigned g_rd = 0; bool g_rd_symbolic = false; }
// receive timeout (SO_RCVTIMEO) of the one modelled socket: while it is armed a recv() may give up with EAGAIN at any point (the peer
// was idle for longer than the timeout); disarmed, recv() waits for the data
namespace { bool g_rcv_timeout_armed = false; bool g_timeouts_modelled = false; }
extern "C" int setsockopt(int, int level, int optname, const void* optval, socklen_t optlen) {
    if (level == SOL_SOCKET && optname == SO_RCVTIMEO && optval && optlen >= sizeof(timeval)) { const timeval* tv = static_cast<const timeval*>(optval); g_rcv_timeout_armed = tv->tv_sec != 0 || tv->tv_usec != 0; }
    return 0;
}
extern "C" ssize_t recv(int, void* buf, size_t n, int) {
    if (g_timeouts_modelled && g_rcv_timeout_armed && g_in_pos < g_in.size() && nondet_bool("peer_idle_longer_than_armed_timeout")) { errno = EAGAIN; return -1; }
    if (g_in_pos >= g_in.size() || n == 0) return 0;                               // peer closed
    const std::size_t k = n < g_in.size() - g_in_pos ? n : g_in.size() - g_in_pos;
    for (std::size_t i = 0; i < k; ++i) static_cast<char*>(buf)[i] = g_in[g_in_pos + i];
    g_in_pos += k; return static_cast<ssize_t>(k);
}
extern "C" ssize_t send(int, const void* buf, size_t n, int) { g_sent.append(static_cast<const char*>(buf), n); return static_cast<ssize_t>(n); }
extern "C" int close(int) { ++g_closed; return 0; }
extern "C" int shutdown(int, int) { return 0; }
void std::random_device::_M_init(const std::string&) {}
void std::random_device::_M_fini() {}
std::random_device::result_type std::random_device::_M_getval() { return g_rd_symbolic ? nondet_u32("nonce_byte") : 0x9E3779B9u * (++g_rd); }
#include "src/crypto/ChaCha20.cpp"
#include "src/network/SessionManager.cpp"
using namespace ephemeralnet; using namespace ephemeralnet::network;
namespace {
struct PartialManager {
    alignas(SessionManager) unsigned char raw[sizeof(SessionManager)];
    SessionManager* mgr() { return reinterpret_cast<SessionManager*>(raw); }
    PartialManager() {
        SessionManager* m = mgr();
        new (&m->handler_mutex_) std::mutex(); new (&m->handler_) SessionManager::MessageHandler();
        new (&m->sessions_mutex_) std::mutex(); new (&m->sessions_) decltype(m->sessions_)();
    }
};
std::vector<std::vector<std::uint8_t>> g_delivered;
}
// sender: frame = nonce(12) || BE32(len) || ChaCha20(key, nonce, counter 0)(payload); nothing is sent above 1 MiB
extern "C" void h_c14_send(unsigned long len) {
    PartialManager pm; SessionManager* m = pm.mgr();
    std::array<std::uint8_t, 32> key{}; nondet_bytes(key.data(), 32, "key");
    std::vector<std::uint8_t> payload(len); if (len) nondet_bytes(payload.data(), len, "payload");
    g_sent.clear(); g_rd_symbolic = true;
    const bool ok = m->send_encrypted(9, key, payload);
    g_rd_symbolic = false;
    verif_assert(ok && g_sent.size() == 12 + 4 + len, "C14: a payload within the limit is sent as nonce, length, ciphertext");
    const std::uint32_t l = (static_cast<std::uint32_t>(static_cast<std::uint8_t>(g_sent[12])) << 24) | (static_cast<std::uint32_t>(static_cast<std::uint8_t>(g_sent[13])) << 16) | (static_cast<std::uint32_t>(static_cast<std::uint8_t>(g_sent[14])) << 8) | static_cast<std::uint8_t>(g_sent[15]);
    verif_assert(l == len, "C14: the length field is the big-endian payload length");
    crypto::Key k{}; k.bytes = key; crypto::Nonce n{}; for (int i = 0; i < 12; ++i) n.bytes[i] = static_cast<std::uint8_t>(g_sent[i]);
    std::vector<std::uint8_t> ct(g_sent.begin() + 16, g_sent.end()), back;
    crypto::ChaCha20::apply(k, n, ct, back, 0u);
    verif_assert(back == payload, "C14: the wire carries the ChaCha20 encryption of the payload under the session key and the frame's nonce");
    verif_reach("sent");
}
extern "C" void h_c14_send_oversize(unsigned long extra) {
    PartialManager pm; SessionManager* m = pm.mgr();
    std::array<std::uint8_t, 32> key{}; std::uint8_t one = 0;
    g_sent.clear();
    const bool ok = m->send_encrypted(9, key, std::span<const std::uint8_t>(&one, (1u << 20) + extra));   // only the size is inspected before the refusal
    verif_assert(!ok && g_sent.empty(), "C14: a payload above 1 MiB is not sent");
    verif_reach("refused");
}
// receiver: nframes frames built by the harness (symbolic nonces and payload bytes) followed by an optional frame with a symbolic
// 32-bit length field and no body; the handler must get each payload once, in order, byte for byte; an oversized length ends the session
extern "C" void h_c14_receive(unsigned long nframes, unsigned long len, unsigned long trailer) {
    PartialManager pm; SessionManager* m = pm.mgr();
    g_delivered.clear(); m->handler_ = [](const TransportMessage& msg) { g_delivered.push_back(msg.payload); };
    auto session = std::make_shared<SessionManager::Session>();
    nondet_bytes(session->key.data(), 32, "key"); session->socket = 9; session->running.store(true);
    PeerId peer{}; peer[0] = 7;
    g_in.clear(); g_in_pos = 0; g_closed = 0;
    std::vector<std::vector<std::uint8_t>> sent;
    for (unsigned long f = 0; f < nframes; ++f) {
        crypto::Key k{}; k.bytes = session->key; crypto::Nonce n{}; nondet_bytes(n.bytes.data(), 12, "nonce");
        std::vector<std::uint8_t> payload(len), ct; if (len) nondet_bytes(payload.data(), len, "payload");
        crypto::ChaCha20::apply(k, n, payload, ct, 0u);
        g_in.append(reinterpret_cast<const char*>(n.bytes.data()), 12);
        const char lenbuf[4] = {0, 0, static_cast<char>(len >> 8), static_cast<char>(len)}; g_in.append(lenbuf, 4);
        g_in.append(reinterpret_cast<const char*>(ct.data()), ct.size());
        sent.push_back(payload);
    }
    std::uint32_t announced = 0;
    if (trailer) { g_in.append(12, '\x55'); announced = nondet_u32("announced_length"); verif_assume(announced > (1u << 20)); const char lb[4] = {static_cast<char>(announced >> 24), static_cast<char>(announced >> 16), static_cast<char>(announced >> 8), static_cast<char>(announced)}; g_in.append(lb, 4); g_in.append(8, '\x00'); }
    m->receive_loop(peer, session);
    verif_assert(g_delivered.size() == sent.size(), "C14: every frame is delivered to the handler exactly once (and an oversized announcement delivers nothing)");
    for (std::size_t i = 0; i < sent.size() && i < g_delivered.size(); ++i) verif_assert(g_delivered[i] == sent[i], "C14: payloads arrive byte for byte and in send order");
    verif_assert(!session->running.load() && g_closed >= 1, "C14: when the stream ends or announces an oversized frame the session is closed");
    if (trailer) verif_assert(g_in_pos <= g_in.size() - 8, "C14: an oversized frame is not buffered (its body is never read)");
    verif_reach("received");
}
// an accepted (inbound) session: the handshake payload is read with the 2000 ms handshake timeout (read_handshake_payload), then the
// receive loop runs on the same socket while the peer sends `nframes` frames with arbitrary pauses. Every frame must be delivered.
extern "C" void h_c14_accepted(unsigned long nframes, unsigned long len) {
    PartialManager pm; SessionManager* m = pm.mgr();
    g_delivered.clear(); m->handler_ = [](const TransportMessage& msg) { g_delivered.push_back(msg.payload); };
    auto session = std::make_shared<SessionManager::Session>();
    nondet_bytes(session->key.data(), 32, "key"); session->socket = 9; session->running.store(true);
    PeerId peer{}; peer[0] = 7;
    g_in.clear(); g_in_pos = 0; g_closed = 0; g_rcv_timeout_armed = false; g_timeouts_modelled = false;
    const char hs[8] = {0, 0, 0, 4, 'h', 's', 'h', 's'}; g_in.append(hs, 8);                      // handshake payload: BE32 length + 4 bytes
    std::vector<std::vector<std::uint8_t>> sent;
    for (unsigned long f = 0; f < nframes; ++f) {
        crypto::Key k{}; k.bytes = session->key; crypto::Nonce n{}; nondet_bytes(n.bytes.data(), 12, "nonce");
        std::vector<std::uint8_t> payload(len), ct; if (len) nondet_bytes(payload.data(), len, "payload");
        crypto::ChaCha20::apply(k, n, payload, ct, 0u);
        g_in.append(reinterpret_cast<const char*>(n.bytes.data()), 12);
        const char lenbuf[4] = {0, 0, static_cast<char>(len >> 8), static_cast<char>(len)}; g_in.append(lenbuf, 4);
        g_in.append(reinterpret_cast<const char*>(ct.data()), ct.size());
        sent.push_back(payload);
    }
    std::vector<std::uint8_t> hsbuf;
    const bool hs_ok = m->read_handshake_payload(session->socket, hsbuf, std::chrono::milliseconds(2000));     // the peer answers the handshake promptly
    verif_assert(hs_ok && hsbuf.size() == 4, "C14: the handshake payload is read");
    g_timeouts_modelled = true;                                                                                // from here on the peer may pause for any length of time
    m->receive_loop(peer, session);
    verif_assert(g_delivered.size() == sent.size(), "C14: every payload sent to a connected peer is delivered whatever the pauses between sends (no handshake timeout stays armed)");
    for (std::size_t i = 0; i < sent.size() && i < g_delivered.size(); ++i) verif_assert(g_delivered[i] == sent[i], "C14: payloads arrive byte for byte and in send order");
    verif_reach("accepted-session");
}
