// Harness unit for network/NatTraversal.cpp (C33): parse_stun_response on an exact-size heap datagram.
// inet_ntop is defined here as a recording stub (formatting is libc's business): it records the address family and
// the raw address bytes the parser hands over, which is what RFC 5389 decoding is judged on.
#include "verif.h"
#include "src/network/NatTraversal.cpp"
#include <cstdlib>

namespace { int g_af = 0; std::uint8_t g_addr[16]; int g_ntop_calls = 0; }
extern "C" const char* inet_ntop(int af, const void* src, char* dst, socklen_t size) noexcept {
    g_af = af; ++g_ntop_calls;
    std::memcpy(g_addr, src, af == AF_INET ? 4 : 16);
    if (size < 2) return nullptr;
    dst[0] = 'A'; dst[1] = 0; return dst;
}
using namespace ephemeralnet::network;

// reference walk per RFC 5389 section 15: attributes are TLVs padded to 4 bytes inside the declared message length.
extern "C" void h_c33_parse(unsigned long len) {
    auto* d = static_cast<std::uint8_t*>(std::malloc(len ? len : 1));
    if (len) nondet_bytes(d, len, "dgram");
    std::array<std::uint8_t, 12> tid{}; nondet_bytes(tid.data(), 12, "tid");
    g_ntop_calls = 0;
    const auto r = parse_stun_response(d, len, tid);
    if (!r) { verif_reach("no-address"); std::free(d); return; }
    verif_reach("address");
    verif_assert(len >= 20, "C33: a datagram shorter than a STUN header yields no address");
    verif_assert(d[0] == 0x01 && d[1] == 0x01, "C33: address only from a Binding Success response");
    unsigned diff = 0; for (int i = 0; i < 12; ++i) diff |= static_cast<unsigned>(d[8 + i] ^ tid[i]);
    verif_assert(diff == 0, "C33: address only when the transaction id matches");
    const std::size_t mlen = (static_cast<std::size_t>(d[2]) << 8) | d[3];
    verif_assert(20 + mlen <= len, "C33: declared message length lies inside the datagram");
    // reference: first well-formed (XOR-)MAPPED-ADDRESS in the attribute walk
    std::size_t off = 20; bool found = false; int fam = 0; std::uint8_t want[16] = {0}; unsigned wport = 0;
    while (off + 4 <= 20 + mlen) {
        const unsigned at = (static_cast<unsigned>(d[off]) << 8) | d[off + 1];
        const std::size_t al = (static_cast<std::size_t>(d[off + 2]) << 8) | d[off + 3];
        if (off + 4 + al > 20 + mlen) break;
        const std::uint8_t* v = d + off + 4;
        if ((at == 0x0001 || at == 0x0020) && al >= 4) {
            const bool x = at == 0x0020;
            unsigned port = (static_cast<unsigned>(v[2]) << 8) | v[3]; if (x) port ^= 0x2112u;
            if (v[1] == 0x01 && al >= 8) {
                fam = 4; wport = port; const std::uint8_t ck[4] = {0x21, 0x12, 0xA4, 0x42};
                for (int i = 0; i < 4; ++i) want[i] = static_cast<std::uint8_t>(v[4 + i] ^ (x ? ck[i] : 0));
                found = true; break;
            }
            if (v[1] == 0x02 && al >= 20) {
                fam = 6; wport = port; const std::uint8_t ck[4] = {0x21, 0x12, 0xA4, 0x42};
                for (int i = 0; i < 16; ++i) want[i] = static_cast<std::uint8_t>(v[4 + i] ^ (x ? (i < 4 ? ck[i] : tid[i - 4]) : 0));
                found = true; break;
            }
        }
        off += 4 + ((al + 3) & ~static_cast<std::size_t>(3));
    }
    verif_assert(found, "C33: an address is reported only from a well-formed MAPPED-ADDRESS / XOR-MAPPED-ADDRESS attribute");
    if (found) {
        verif_assert(g_ntop_calls == 1 && g_af == (fam == 4 ? AF_INET : AF_INET6), "C33: address family decoded as in RFC 5389");
        unsigned dd = 0; for (int i = 0; i < (fam == 4 ? 4 : 16); ++i) dd |= static_cast<unsigned>(g_addr[i] ^ want[i]);
        verif_assert(dd == 0, "C33: address bytes decoded (and un-XORed) exactly as RFC 5389 specifies");
        verif_assert(r->port == wport, "C33: port decoded (and un-XORed) exactly as RFC 5389 specifies");
    }
    std::free(d);
}
