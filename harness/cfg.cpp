// Harness unit for configuration layering (C32): the whole `namespace config` block, struct GlobalOptions, apply_profile_to_options
// and load_configuration are lifted textually from the current src/main.cpp. The file reader config::load_document (ifstream + the
// YAML/JSON text parsers) is replaced by a function returning the document the harness built; argv parsing is not encoded: the
// command-line layer is represented by the GlobalOptions fields a flag would have set.
#include "stdmodels.h"
#include "rbtree_models.h"
#include <algorithm>
#include <cctype>
#include <charconv>
#include <cmath>
#include <cstdint>
#include <filesystem>
#include <fstream>
#include <initializer_list>
#include <iostream>
#include <limits>
#include <map>
#include <optional>
#include <set>
#include <sstream>
#include <stdexcept>
#include <string>
#include <string_view>
#include <vector>
#include "ephemeralnet/Config.hpp"
namespace lifted {
using namespace ephemeralnet;
#include SNIP_PRE
#include SNIP_GLOBAL_OPTIONS
#define load_document real_load_document_unused
#include SNIP_CONFIG_NS
#undef load_document
namespace config { static Value g_document; Value harness_document() { return g_document; } }
#include SNIP_AUTO
#include SNIP_APPLY
#define load_document(path_) harness_document()
#include SNIP_LOAD
#undef load_document
}
using lifted::config::Value; using lifted::GlobalOptions;
static Value obj() { return Value::make_object(); }
// document: profiles { default {…}, base {…}, alt {extends: <symbolic>} … }, environments { prod { profile?, overrides{…}, direct keys } }
// For the option "control.port" (int) and "control.token" (string) and "storage.persistent" (bool) each layer's presence is symbolic.
extern "C" void h_c32_precedence(unsigned long with_env, unsigned long chain) {
    Value doc = obj(); Value profiles = obj();
    // ancestors: base <- default (default extends base when chain >= 1), grand <- base when chain >= 2
    const bool in_grand = nondet_bool("port_in_grandparent"), in_base = nondet_bool("port_in_parent"), in_default = nondet_bool("port_in_profile"), in_env = nondet_bool("port_in_environment"), by_flag = nondet_bool("port_by_flag");
    const std::int64_t p_grand = 1000 + (nondet_u8("v") & 7), p_base = 2000 + (nondet_u8("v") & 7), p_default = 3000 + (nondet_u8("v") & 7), p_env = 4000 + (nondet_u8("v") & 7); const std::uint16_t p_flag = 5000;
    auto with_port = [](Value v, bool present, std::int64_t port) { if (present) { Value c = obj(); c.as_object()["port"] = Value(port); v.as_object()["control"] = c; } return v; };
    Value grand = with_port(obj(), verif_concretize(in_grand, 2) && chain >= 2, p_grand);
    Value base = with_port(obj(), verif_concretize(in_base, 2) && chain >= 1, p_base); if (chain >= 2) base.as_object()["extends"] = Value(std::string("grand"));
    Value dflt = with_port(obj(), verif_concretize(in_default, 2), p_default); if (chain >= 1) dflt.as_object()["extends"] = Value(std::string("base"));
    // a boolean option with its own flag pair (--persistent / --no-persistent): storage.persistent, set in the selected profile to a symbolic
    // value; the flag layer is absent, true or false
    const bool file_persistent = nondet_bool("profile_persistent_value");
    { Value st = obj(); st.as_object()["persistent"] = Value(verif_concretize(file_persistent, 2) != 0); dflt.as_object()["storage"] = st; }
    std::uint8_t persist_flag = nondet_u8("persistent_flag"); verif_assume(persist_flag < 3); persist_flag = static_cast<std::uint8_t>(verif_concretize(persist_flag, 3));   // 0 no flag, 1 --persistent, 2 --no-persistent
    profiles.as_object()["default"] = dflt; if (chain >= 1) profiles.as_object()["base"] = base; if (chain >= 2) profiles.as_object()["grand"] = grand;
    doc.as_object()["profiles"] = profiles;
    GlobalOptions options{}; options.config_path = std::string("cfg.yaml");
    if (with_env) {
        Value env = obj(); Value ov = obj();
        if (verif_concretize(in_env, 2)) { Value c = obj(); c.as_object()["port"] = Value(p_env); ov.as_object()["control"] = c; }
        env.as_object()["overrides"] = ov;
        Value envs = obj(); envs.as_object()["prod"] = env; doc.as_object()["environments"] = envs;
        options.environment = std::string("prod");
    }
    if (verif_concretize(by_flag, 2)) options.control_port = p_flag;
    if (persist_flag) { options.persistent_set = true; options.persistent = persist_flag == 1; }
    lifted::config::g_document = doc;
    lifted::load_configuration(options);
    // reference: flags, then environment overrides, then the selected profile, then its ancestors, then the built-in default (unset)
    std::optional<std::int64_t> want;
    if (by_flag) want = p_flag;
    else if (with_env && in_env) want = p_env;
    else if (in_default) want = p_default;
    else if (chain >= 1 && in_base) want = p_base;
    else if (chain >= 2 && in_grand) want = p_grand;
    verif_assert(options.control_port.has_value() == want.has_value(), "C32: a setting is taken from some layer exactly when a layer sets it");
    if (want && options.control_port) verif_assert(static_cast<std::int64_t>(*options.control_port) == *want, "C32: each effective setting equals the value from the highest-precedence layer that sets it");
    verif_assert(options.persistent_set && options.persistent == (persist_flag ? persist_flag == 1 : file_persistent), "C32: a boolean setting equals the flag when one was given (--persistent / --no-persistent) and the profile value otherwise");
    verif_reach("resolved");
}
// cyclic and missing profiles are reported as errors (never looping, never ignored)
extern "C" void h_c32_errors(unsigned long kind) {
    Value doc = obj(); Value profiles = obj(); Value dflt = obj(), other = obj();
    if (kind == 0) dflt.as_object()["extends"] = Value(std::string("default"));                                         // self cycle
    if (kind == 1) { dflt.as_object()["extends"] = Value(std::string("other")); other.as_object()["extends"] = Value(std::string("default")); }   // 2-cycle
    if (kind == 2) dflt.as_object()["extends"] = Value(std::string("missing"));
    Value third = obj();
    if (kind == 4) { dflt.as_object()["extends"] = Value(std::string("other")); other.as_object()["extends"] = Value(std::string("third")); third.as_object()["extends"] = Value(std::string("other")); }   // default -> other -> third -> other ...
    if (kind == 4) profiles.as_object()["third"] = third;
    verif_depth_limit(200);                                                                                               // unbounded recursion is a violation, not a long run                                         // missing ancestor
    profiles.as_object()["default"] = dflt; profiles.as_object()["other"] = other; doc.as_object()["profiles"] = profiles;
    GlobalOptions options{}; options.config_path = std::string("cfg.yaml");
    if (kind == 3) options.profile_name = std::string("nope");                                                            // missing selected profile
    lifted::config::g_document = doc;
    bool reported = false;
    try { lifted::load_configuration(options); } catch (const lifted::config::ConfigError&) { reported = true; }
    verif_assert(reported, "C32: cyclic or missing profiles are reported as configuration errors");
    verif_reach("reported");
}
