// Harness unit for daemon/StructuredLogger.cpp (C37). In the engine std::ostringstream and std::clog are replaced, at the source level,
// by the small sink classes below (formatting through libstdc++'s iostreams is external code); natively NOTHING is replaced: the real
// iostreams run and std::clog is captured through its rdbuf, so every native replay also validates the sink model.
#include "verif.h"
#include <string>
#include <string_view>
#include <vector>
#include <iomanip>
#include <sstream>
#include <iostream>
#include <ctime>
#include <chrono>
#ifndef VERIF_NATIVE
namespace verif_io {
struct Sink {
    std::string buf; bool hexbase = false, upper = false; int width = 0; char fill = ' ';
    void put(const char* p, std::size_t n) { for (std::size_t k = n; static_cast<int>(k) < width; ++k) buf.push_back(fill); buf.append(p, n); width = 0; }
    Sink& operator<<(const char* s) { std::size_t n = 0; while (s[n]) ++n; put(s, n); return *this; }
    Sink& operator<<(char c) { put(&c, 1); return *this; }
    Sink& operator<<(const std::string& s) { put(s.data(), s.size()); return *this; }
    Sink& operator<<(std::string_view s) { put(s.data(), s.size()); return *this; }
    Sink& num(long long v) {
        char tmp[24]; int n = 0; bool neg = v < 0; unsigned long long u = neg ? (hexbase ? static_cast<unsigned long long>(v) : static_cast<unsigned long long>(-v)) : static_cast<unsigned long long>(v);
        if (hexbase) neg = false;
        const unsigned base = hexbase ? 16 : 10;
        do { const unsigned d = static_cast<unsigned>(u % base); tmp[n++] = static_cast<char>(d < 10 ? '0' + d : (upper ? 'A' : 'a') + d - 10); u /= base; } while (u);
        if (neg) tmp[n++] = '-';
        char out[24]; for (int i = 0; i < n; ++i) out[i] = tmp[n - 1 - i];
        put(out, static_cast<std::size_t>(n)); return *this;
    }
    Sink& operator<<(int v) { return num(v); }
    Sink& operator<<(long v) { return num(v); }
    Sink& operator<<(long long v) { return num(v); }
    Sink& operator<<(std::ios_base& (*m)(std::ios_base&)) { if (m == static_cast<std::ios_base& (*)(std::ios_base&)>(std::hex)) hexbase = true; else if (m == static_cast<std::ios_base& (*)(std::ios_base&)>(std::dec)) hexbase = false; else if (m == static_cast<std::ios_base& (*)(std::ios_base&)>(std::uppercase)) upper = true; else verif_abort(); return *this; }
    Sink& operator<<(std::_Setw w) { width = w._M_n; return *this; }
    Sink& operator<<(std::_Setfill<char> f) { fill = f._M_c; return *this; }
    Sink& operator<<(std::_Put_time<char>) { buf += "2026-01-02T03:04:05"; return *this; }      // the timestamp text is not the subject
    std::string str() const { return buf; }
    void flush() {}
};
inline Sink g_clog;
}
#define ostringstream verif_sink_alias
#define clog verif_clog_alias
namespace std { using verif_sink_alias = verif_io::Sink; inline verif_io::Sink& verif_clog_alias = verif_io::g_clog; }
extern "C" struct tm* gmtime_r(const time_t*, struct tm* out) { *out = tm{}; return out; }
#endif
#include "src/daemon/StructuredLogger.cpp"
#ifndef VERIF_NATIVE
#undef ostringstream
#undef clog
#endif
#include "stdmodels_clock_only.h"
using namespace ephemeralnet::daemon;

// RFC 8259 string un-escaper for the quoted segment starting at s[pos] == '"'; returns false when malformed
static bool unescape(const std::string& s, std::size_t& pos, std::string& out) {
    if (pos >= s.size() || s[pos] != '"') return false;
    ++pos;
    while (pos < s.size() && s[pos] != '"') {
        const unsigned char c = static_cast<unsigned char>(s[pos]);
        if (c < 0x20) return false;                       // raw control characters are not allowed inside JSON strings
        if (c == '\\') {
            if (pos + 1 >= s.size()) return false;
            const char e = s[pos + 1]; pos += 2;
            switch (e) { case '"': out.push_back('"'); break; case '\\': out.push_back('\\'); break; case '/': out.push_back('/'); break; case 'b': out.push_back('\b'); break;
                         case 'f': out.push_back('\f'); break; case 'n': out.push_back('\n'); break; case 'r': out.push_back('\r'); break; case 't': out.push_back('\t'); break;
                         case 'u': { if (pos + 4 > s.size()) return false; unsigned cp = 0;
                                     for (int i = 0; i < 4; ++i) { const char h = s[pos + i]; int v = h >= '0' && h <= '9' ? h - '0' : h >= 'a' && h <= 'f' ? h - 'a' + 10 : h >= 'A' && h <= 'F' ? h - 'A' + 10 : -1; if (v < 0) return false; cp = cp * 16 + static_cast<unsigned>(v); }
                                     pos += 4; if (cp > 0x7F) return false; out.push_back(static_cast<char>(cp)); break; }
                         default: return false; }
        } else { out.push_back(static_cast<char>(c)); ++pos; }
    }
    if (pos >= s.size()) return false;
    ++pos; return true;
}
static bool expect(const std::string& s, std::size_t& pos, const char* lit) { std::size_t n = 0; while (lit[n]) ++n; if (s.compare(pos, n, lit) != 0) return false; pos += n; return true; }
static std::string sym_text(unsigned long n, const char* tag) { std::string t; for (unsigned long i = 0; i < n; ++i) { const std::uint8_t c = nondet_u8(tag); verif_assume(c < 0x80); t.push_back(static_cast<char>(c)); } return t; }

// event of ev_len symbolic ASCII bytes (all control bytes, quotes, backslashes inside); nfields fields with f_len-byte keys and values
extern "C" void h_c37_log(unsigned long ev_len, unsigned long nfields, unsigned long f_len) {
    const std::string event = "e" + sym_text(ev_len, "event") + "\xC3\xA9";        // a valid 2-byte UTF-8 sequence rides along
    StructuredLogger::FieldList fields;
    for (unsigned long i = 0; i < nfields; ++i) fields.emplace_back(sym_text(f_len, "key") + "k", sym_text(f_len, "value"));
#ifdef VERIF_NATIVE
    std::ostringstream capture; auto* old = std::clog.rdbuf(capture.rdbuf());
#else
    verif_io::g_clog.buf.clear();
#endif
    StructuredLogger::instance().log(StructuredLogger::Level::Warning, event, fields);
#ifdef VERIF_NATIVE
    std::clog.rdbuf(old); const std::string line = capture.str();
#else
    const std::string line = verif_io::g_clog.buf;
#endif
    verif_assert(!line.empty() && line.back() == '\n', "C37: a record ends with a newline");
    for (std::size_t i = 0; i + 1 < line.size(); ++i) verif_assert(static_cast<unsigned char>(line[i]) >= 0x20, "C37: a record is exactly one line (no raw control character inside)");
    std::size_t pos = 0; std::string ts, level, ev;
    bool ok = expect(line, pos, "{\"ts\":") && unescape(line, pos, ts) && expect(line, pos, ",\"level\":") && unescape(line, pos, level) && expect(line, pos, ",\"event\":") && unescape(line, pos, ev);
    verif_assert(ok, "C37: the record is valid JSON with ts, level and event strings");
    if (!ok) return;
    verif_assert(ev == event && level == "warning", "C37: event name and level decode back to exactly what was logged");
    if (nfields) {
        verif_assert(expect(line, pos, ",\"fields\":{"), "C37: fields object present");
        for (unsigned long i = 0; i < nfields; ++i) {
            std::string k, v;
            const bool fok = unescape(line, pos, k) && expect(line, pos, ":") && unescape(line, pos, v);
            verif_assert(fok && k == fields[i].first && v == fields[i].second, "C37: field names and values decode back to exactly the strings that were logged");
            if (i + 1 < nfields) verif_assert(expect(line, pos, ","), "C37: fields are comma separated");
        }
        verif_assert(expect(line, pos, "}"), "C37: fields object closed");
    }
    verif_assert(expect(line, pos, "}\n") && pos == line.size(), "C37: the record is one complete JSON object followed by a newline");
    verif_reach("logged");
}
