// Harness unit for crypto/ChaCha20.cpp + crypto/CryptoManager.cpp (C09).
// (a) h_c09_block:  ChaCha20::apply on one 64-byte block equals input XOR the RFC 8439 2.3 block function, everything symbolic.
// (b) h_c09_stream: apply for a given length with a fully symbolic initial counter: byte i is XORed with byte i%64 of block
//     (counter + i/64) mod 2^32. The real chacha20_block and the reference block are both redirected to one uninterpreted function.
// (c) h_c09_manager: CryptoManager plumbing (counter = LE32 of the chunk id prefix, nonce used == nonce returned, decrypt inverts).
#include "verif.h"
#include "src/crypto/ChaCha20.cpp"
#include "src/crypto/CryptoManager.cpp"
#include <vector>
using namespace ephemeralnet;
using namespace ephemeralnet::crypto;
// random_device: concrete sequence (the nonce value itself is not the subject; that it is the one used AND returned is)
namespace { unsigned g_rd = 0; }
void std::random_device::_M_init(const std::string&) {}
void std::random_device::_M_fini() {}
std::random_device::result_type std::random_device::_M_getval() { return 0x9E3779B9u * (++g_rd) + 0x7F4A7C15u; }

namespace spec {   // RFC 8439 section 2.1 - 2.3
static inline std::uint32_t ROTL(std::uint32_t x, unsigned n) { return (x << n) | (x >> (32 - n)); }
#define QR(a, b, c, d) a += b; d ^= a; d = ROTL(d, 16); c += d; b ^= c; b = ROTL(b, 12); a += b; d ^= a; d = ROTL(d, 8); c += d; b ^= c; b = ROTL(b, 7);
__attribute__((noinline)) void block(const std::uint8_t key[32], const std::uint8_t nonce[12], std::uint32_t counter, std::uint8_t out[64]) {
    std::uint32_t s[16], x[16];
    s[0] = 0x61707865; s[1] = 0x3320646e; s[2] = 0x79622d32; s[3] = 0x6b206574;
    for (int i = 0; i < 8; ++i) s[4 + i] = std::uint32_t(key[4 * i]) | (std::uint32_t(key[4 * i + 1]) << 8) | (std::uint32_t(key[4 * i + 2]) << 16) | (std::uint32_t(key[4 * i + 3]) << 24);
    s[12] = counter;
    for (int i = 0; i < 3; ++i) s[13 + i] = std::uint32_t(nonce[4 * i]) | (std::uint32_t(nonce[4 * i + 1]) << 8) | (std::uint32_t(nonce[4 * i + 2]) << 16) | (std::uint32_t(nonce[4 * i + 3]) << 24);
    for (int i = 0; i < 16; ++i) x[i] = s[i];
    for (int r = 0; r < 10; ++r) {
        QR(x[0], x[4], x[8], x[12]) QR(x[1], x[5], x[9], x[13]) QR(x[2], x[6], x[10], x[14]) QR(x[3], x[7], x[11], x[15])
        QR(x[0], x[5], x[10], x[15]) QR(x[1], x[6], x[11], x[12]) QR(x[2], x[7], x[8], x[13]) QR(x[3], x[4], x[9], x[14])
    }
    for (int i = 0; i < 16; ++i) { const std::uint32_t v = x[i] + s[i]; out[4 * i] = v; out[4 * i + 1] = v >> 8; out[4 * i + 2] = v >> 16; out[4 * i + 3] = v >> 24; }
}
}
// redirect targets: one uninterpreted function KS(key, nonce, counter) for both block functions
extern "C" void h_uf_real_block(const Key* key, const Nonce* nonce, std::uint32_t counter, std::array<std::uint8_t, 64>* buffer) {
    std::uint8_t in[48];
    for (int i = 0; i < 32; ++i) in[i] = key->bytes[i];
    for (int i = 0; i < 12; ++i) in[32 + i] = nonce->bytes[i];
    in[44] = counter; in[45] = counter >> 8; in[46] = counter >> 16; in[47] = counter >> 24;
    verif_uf("chacha20_block", in, 48, buffer->data(), 64);
}
extern "C" void h_uf_spec_block(const std::uint8_t* key, const std::uint8_t* nonce, std::uint32_t counter, std::uint8_t* out) {
    std::uint8_t in[48];
    for (int i = 0; i < 32; ++i) in[i] = key[i];
    for (int i = 0; i < 12; ++i) in[32 + i] = nonce[i];
    in[44] = counter; in[45] = counter >> 8; in[46] = counter >> 16; in[47] = counter >> 24;
    verif_uf("chacha20_block", in, 48, out, 64);
}
extern "C" void h_c09_block(unsigned long) {
    Key key; Nonce nonce; nondet_bytes(key.bytes.data(), 32, "key"); nondet_bytes(nonce.bytes.data(), 12, "nonce");
    const std::uint32_t counter = nondet_u32("counter");
    std::vector<std::uint8_t> in(64), out; nondet_bytes(in.data(), 64, "input");
    ChaCha20::apply(key, nonce, in, out, counter);
    std::uint8_t ks[64]; spec::block(key.bytes.data(), nonce.bytes.data(), counter, ks);
    verif_assert(out.size() == 64, "C09: output length equals input length");
    for (int i = 0; i < 64; ++i) verif_assert(out[i] == static_cast<std::uint8_t>(in[i] ^ ks[i]), "C09: one block equals input XOR the RFC 8439 block function");
    verif_reach("block");
}
// RFC 8439 2.3.2 / 2.4.2 test vectors (key 00..1f)
extern "C" void h_c09_vectors(unsigned long) {
    Key key; for (int i = 0; i < 32; ++i) key.bytes[i] = i;
    Nonce n1{}; n1.bytes = {0, 0, 0, 0x09, 0, 0, 0, 0x4a, 0, 0, 0, 0};
    std::vector<std::uint8_t> zero(64, 0), out;
    ChaCha20::apply(key, n1, zero, out, 1);
    static const std::uint8_t ks1[16] = {0x10, 0xf1, 0xe7, 0xe4, 0xd1, 0x3b, 0x59, 0x15, 0x50, 0x0f, 0xdd, 0x1f, 0xa3, 0x20, 0x71, 0xc4};
    for (int i = 0; i < 16; ++i) verif_assert(out[i] == ks1[i], "C09: RFC 8439 2.3.2 block test vector");
    std::uint8_t ref[64]; spec::block(key.bytes.data(), n1.bytes.data(), 1, ref);
    for (int i = 0; i < 16; ++i) verif_assert(ref[i] == ks1[i], "reference self-check");
    Nonce n2{}; n2.bytes = {0, 0, 0, 0, 0, 0, 0, 0x4a, 0, 0, 0, 0};
    const char* pt = "Ladies and Gentlemen of the class of '99: If I could offer you only one tip for the future, sunscreen would be it.";
    std::vector<std::uint8_t> in(pt, pt + 114), ct;
    ChaCha20::apply(key, n2, in, ct, 1);
    static const std::uint8_t c0[8] = {0x6e, 0x2e, 0x35, 0x9a, 0x25, 0x68, 0xf9, 0x80};
    static const std::uint8_t cend[4] = {0x87, 0x4d};
    for (int i = 0; i < 8; ++i) verif_assert(ct[i] == c0[i], "C09: RFC 8439 2.4.2 encryption test vector (head)");
    verif_assert(ct.size() == 114 && ct[112] == 0x87 && ct[113] == 0x4d, "C09: RFC 8439 2.4.2 encryption test vector (tail)");
    (void)cend;
    verif_reach("vectors");
}
extern "C" void h_c09_stream(unsigned long len) {
    Key key; Nonce nonce; nondet_bytes(key.bytes.data(), 32, "key"); nondet_bytes(nonce.bytes.data(), 12, "nonce");
    const std::uint32_t counter = nondet_u32("counter");
    std::vector<std::uint8_t> in(len), out, back;
    if (len) nondet_bytes(in.data(), len, "input");
    ChaCha20::apply(key, nonce, in, out, counter);
    verif_assert(out.size() == len, "C09: output length equals input length");
    std::uint8_t ks[64];
    for (std::size_t i = 0; i < len && out.size() == len; ++i) {
        if (i % 64 == 0) spec::block(key.bytes.data(), nonce.bytes.data(), static_cast<std::uint32_t>(counter + i / 64), ks);   // counter arithmetic mod 2^32
        verif_assert(out[i] == static_cast<std::uint8_t>(in[i] ^ ks[i % 64]), "C09: byte i uses keystream block (counter + i/64) mod 2^32, offset i%64");
    }
    ChaCha20::apply(key, nonce, out, back, counter);
    verif_assert(back.size() == len, "C09: applying twice keeps the length");
    for (std::size_t i = 0; i < len && back.size() == len; ++i) verif_assert(back[i] == in[i], "C09: applying the cipher twice returns the input");
    verif_reach("stream");
}
extern "C" void h_c09_manager(unsigned long len) {
    Key key; nondet_bytes(key.bytes.data(), 32, "key");
    bool nonzero = false; for (auto b : key.bytes) nonzero = nonzero || b != 0;
    verif_assume(nonzero);                       // the all-zero key is silently replaced by a random one (stated as outside the claim)
    ChunkId id{}; nondet_bytes(id.data(), 32, "chunk_id");
    ChunkData pt(len); if (len) nondet_bytes(pt.data(), len, "plaintext");
    const CipherText ct = CryptoManager::encrypt_with_key(key, id, pt);
    verif_assert(ct.data.size() == len, "C09: ciphertext length equals plaintext length");
    const std::uint32_t ctr = std::uint32_t(id[0]) | (std::uint32_t(id[1]) << 8) | (std::uint32_t(id[2]) << 16) | (std::uint32_t(id[3]) << 24);
    std::uint8_t ks[64];
    for (std::size_t i = 0; i < len && ct.data.size() == len; ++i) {
        if (i % 64 == 0) spec::block(key.bytes.data(), ct.nonce.bytes.data(), static_cast<std::uint32_t>(ctr + i / 64), ks);
        verif_assert(ct.data[i] == static_cast<std::uint8_t>(pt[i] ^ ks[i % 64]), "C09: stored bytes are ChaCha20(key, returned nonce, counter = LE32(chunk id)) of the payload");
    }
    const auto back = CryptoManager::decrypt_with_key(key, id, ct.data, ct.nonce);
    verif_assert(back.has_value() && back->size() == len, "C09: decrypt returns a payload of the same length");
    if (back.has_value() && back->size() == len) for (std::size_t i = 0; i < len; ++i) verif_assert((*back)[i] == pt[i], "C09: decrypt with the returned nonce inverts encrypt");
    verif_reach("manager");
}
