#!/bin/sh
# Runs setup and every check's quick command exactly as listed in MANIFEST.json; prints one line per check.
cd "$(dirname "$0")" || exit 2
python3-vt -c "
import json, subprocess, time, sys
m = json.load(open('MANIFEST.json'))
rc = subprocess.call(m['setup_cmd'], shell=True); print('setup rc', rc, flush=True)
tier = sys.argv[1] if len(sys.argv) > 1 else 'quick'
bad = 0
for c in m['checks']:
    t = time.time(); cmd = c['quick_cmd'] if tier == 'quick' else c.get('thorough_cmd', c['quick_cmd'])
    r = subprocess.run(cmd, shell=True, capture_output=True, text=True)
    print(c['property_id'], 'rc', r.returncode, '%.0fs' % (time.time() - t), r.stdout.strip().splitlines()[-1:] , flush=True)
    bad += r.returncode != 0 or 'VIOLATION' in r.stdout
sys.exit(1 if bad else 0)
" "$@"
